#!/bin/bash
# Runs the quick checks named in seeded/benign/<name>/checks.txt against each behaviour-preserving change stored there
# (applies the patch to /repo, runs the checks with output redirected away from /verif/evidence, reverts) and writes
# seeded/benign/RESULTS.md. Every check must exit 0: anything else is a false alarm of the machinery.
set -u
HERE="$(cd "$(dirname "${BASH_SOURCE[0]}")" && pwd)"; cd "$HERE"
OUT=seeded/benign/RESULTS.md
{
  echo "# Behaviour-preserving changes vs. quick checks"; echo
  echo "Produced by \`./benign_all.sh\` on /verif $(git rev-parse --short HEAD), /repo $(git -C /repo rev-parse --short HEAD). Every line must read exit=0 for all checks."; echo
  echo "| change | checks run | result |"; echo "|---|---|---|"
} > $OUT.tmp
bad=0
for d in $(ls -d seeded/benign/*-b* | sort -V); do
  [ -n "${1:-}" ] && [[ "$(basename $d)" != $1* ]] && continue
  ids="$(cat $d/checks.txt)"
  res="$(./seeded_run.sh $d $ids 2>&1)"
  summary="$(echo "$res" | grep -oE "^== C[0-9]+ exit=[0-9]+" | sed 's/^== //' | tr '\n' ' ')"
  alarms="$(echo "$res" | grep -E "^VIOLATION" | sed -E 's/.*property=([^ ]+).*clause=([^ ]+) site=([^ ]+) .*/\1 \2 \3/' | sort -u | head -4 | tr '\n' ';')"
  if echo "$summary" | grep -qE "exit=[1-9]" || [ -z "$summary" ]; then bad=$((bad+1)); fi
  echo "| $(basename $d) | $ids | ${summary:-NOT RUN: $(echo "$res" | tail -1)} ${alarms:+— alarms: $alarms} |" >> $OUT.tmp
  echo "$(basename $d): $summary $alarms"
done
echo >> $OUT.tmp; echo "Changes with a non-zero exit: $bad" >> $OUT.tmp
[ -z "${1:-}" ] && mv $OUT.tmp $OUT
echo "non-zero: $bad"
[ $bad -eq 0 ]
