#!/bin/bash
# Runs every stored seeded change against the quick check of its property and writes seeded/RESULTS.md.
# (Applies each patch to /repo in turn and reverts it; refuses to start if /repo is not clean.)
set -u
HERE="$(cd "$(dirname "${BASH_SOURCE[0]}")" && pwd)"
cd "$HERE"
OUT=seeded/RESULTS.md
{
  echo "# Seeded changes vs. quick checks"
  echo
  echo "Produced by \`./seeded_all.sh\` on /verif $(git rev-parse --short HEAD), /repo $(git -C /repo rev-parse --short HEAD)."
  echo
  echo "| change | check exit | violations reported (clause site, first three distinct) |"
  echo "|---|---|---|"
} > $OUT.tmp
miss=0
for d in $(ls -d seeded/C??-* | sort -V); do
  res="$(./seeded_run.sh $d 2>&1)"
  code=$(echo "$res" | grep -oE "exit=[0-9]+" | head -1 | cut -d= -f2)
  sites=$(echo "$res" | grep -E "^VIOLATION" | sed -E 's/.*clause=([^ ]+) site=([^ ]+) .*/\1 \2/' | sort -u | head -3 | tr '\n' ';' | sed 's/;$//; s/;/; /g')
  expected="$(python3 -c "import json;print(json.load(open('$d/meta.json')).get('expected',''))")"
  if [ "$code" != "1" ]; then
    if [ "$expected" = "not caught" ]; then sites="not caught — recorded as expected (reason in its meta.json, DESIGN §10 / §12.6)"; else miss=$((miss+1)); fi
  elif [ "$expected" = "not caught" ]; then sites="$sites (was recorded as out of reach!)"; fi
  echo "| $(basename $d) | ${code:-?} | ${sites:-none} |" >> $OUT.tmp
  echo "$(basename $d) exit=${code:-?} $sites"
done
echo >> $OUT.tmp
echo "Not caught: $miss" >> $OUT.tmp
mv $OUT.tmp $OUT
echo "not caught: $miss"
[ $miss -eq 0 ]
