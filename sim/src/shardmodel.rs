//! Model shards (records as plain data), their seeded generators, conversion to/from /repo's record types, and the
//! reader-seam adapters (short reads, Pending) used by the shard and xorb engines.

use std::collections::BTreeMap;
use std::io::{Read, Seek, SeekFrom};
use std::pin::Pin;
use std::task::{Context, Poll};

use mdb_shard::cas_structs::{CASChunkSequenceEntry, CASChunkSequenceHeader, MDBCASInfo};
use mdb_shard::file_structs::{FileDataSequenceEntry, FileDataSequenceHeader, FileMetadataExt, FileVerificationEntry, MDBFileInfo};
use mdb_shard::shard_in_memory::MDBInMemoryShard;
use serde::{Deserialize, Serialize};

use crate::prng::{mix, Rng};
use crate::refmodel::*;

#[derive(Clone, Debug, Default, PartialEq)]
pub struct ModelShard {
    pub files: BTreeMap<H, RefFile>,
    pub xorbs: BTreeMap<H, RefXorbRec>,
}

/// Order used by the shard format: hashes compare as four little-endian u64 words.
pub fn hkey(h: &H) -> [u64; 4] {
    let mut w = [0u64; 4];
    for i in 0..4 {
        w[i] = u64::from_le_bytes(h[i * 8..i * 8 + 8].try_into().unwrap());
    }
    w
}

#[derive(Clone, Debug, Serialize, Deserialize, PartialEq)]
pub struct ShardSpec {
    pub seed: u64,
    pub n_files: u32,
    pub n_xorbs: u32,
    pub max_chunks: u32,
    /// 0 random hashes; 1 clustered prefixes; 2 groups of up to 7 equal truncated prefixes + extremes; 3 dense cluster
    pub hash_style: u32,
    /// per file flags: 0 none, 1 verification, 2 metadata ext, 3 both, 4 mixed per file
    pub flags_mode: u32,
    /// chunk hashes drawn from a small pool (duplicates across xorbs) with this probability /16
    pub dup_chunks: u32,
    /// Some((selection seed, keep probability /16)): this model additionally contains a subset of the records of
    /// the plan's first model (same bodies; files may carry a subset of the optional parts)
    #[serde(default)]
    pub overlap_first: Option<(u64, u32)>,
    /// only records that account for no bytes: files without segments, xorbs without chunks (all byte totals zero)
    #[serde(default)]
    pub zero_byte_only: bool,
    /// the recorded byte offset of each chunk within its xorb (a field the format never validates and no reader
    /// relies on): 0 exact running sums, 1 all zero, 2 arbitrary values
    #[serde(default)]
    pub offsets_style: u32,
}

pub struct HashGen {
    rng: Rng,
    style: u32,
    prefixes: Vec<u64>,
    group_left: BTreeMap<u64, u32>,
}

impl HashGen {
    pub fn new(seed: u64, style: u32) -> Self {
        let mut rng = Rng::new(seed ^ 0x4841);
        let mut prefixes = vec![0u64, 1, u64::MAX, u64::MAX - 1, 1 << 63, (1 << 63) - 1];
        let base = rng.next_u64();
        for i in 0..12 {
            prefixes.push(base.wrapping_add(i));
        }
        for _ in 0..6 {
            prefixes.push(rng.next_u64());
        }
        HashGen {
            rng,
            style,
            prefixes,
            group_left: BTreeMap::new(),
        }
    }
    pub fn next(&mut self) -> H {
        let mut h = [0u8; 32];
        self.rng.fill(&mut h);
        let cand: Option<u64> = match self.style % 4 {
            0 => None,
            1 => {
                if self.rng.chance(1, 2) {
                    Some(*self.rng.pick(&self.prefixes) ^ (self.rng.below(4) << 20))
                } else {
                    None
                }
            },
            2 => {
                if self.rng.chance(2, 3) {
                    Some(*self.rng.pick(&self.prefixes))
                } else {
                    None
                }
            },
            _ => {
                let b = self.prefixes[6];
                Some(b.wrapping_add(self.rng.below(4000)))
            },
        };
        // at most 7 hashes per truncated prefix (the statement's bound), whatever the style
        let prefix = cand.filter(|p| {
            let left = self.group_left.entry(*p).or_insert(7);
            if *left > 0 {
                *left -= 1;
                true
            } else {
                false
            }
        });
        if let Some(p) = prefix {
            h[..8].copy_from_slice(&p.to_le_bytes());
        }
        if h == [0xffu8; 32] || h == [0u8; 32] {
            h[31] = 0x55;
        }
        h
    }
}

pub fn gen_model(spec: &ShardSpec) -> ModelShard {
    let mut rng = Rng::new(spec.seed);
    let mut hg = HashGen::new(spec.seed, spec.hash_style);
    let mut m = ModelShard::default();
    let mut chunk_pool: Vec<(H, u32)> = Vec::new();
    // with style 2 the chunk table may hold more than 7 equal prefixes (allowed for chunks); keep xorb/file hashes
    // within the bound by construction of HashGen (one generator for all record hashes)
    let mut chg = HashGen::new(spec.seed ^ 0xC4, if spec.hash_style == 2 { 1 } else { spec.hash_style });
    for _ in 0..spec.n_xorbs {
        let n = if spec.zero_byte_only { 0 } else { rng.log_range(1, spec.max_chunks.max(1) as u64) as usize };
        let mut chunks = Vec::with_capacity(n);
        let mut pos = 0u32;
        for _ in 0..n {
            let (h, l) = if !chunk_pool.is_empty() && rng.below(16) < spec.dup_chunks as u64 {
                *rng.pick(&chunk_pool)
            } else {
                let e = (chg.next(), rng.log_range(1, 131072) as u32);
                if chunk_pool.len() < 64 {
                    chunk_pool.push(e);
                }
                e
            };
            let recorded = match spec.offsets_style {
                0 => pos,
                1 => 0,
                _ => rng.next_u64() as u32,
            };
            chunks.push((h, l, recorded));
            pos = pos.wrapping_add(l);
        }
        let hash = hg.next();
        m.xorbs.insert(
            hash,
            RefXorbRec {
                hash,
                flags: 0,
                num_bytes: pos,
                num_bytes_on_disk: if rng.chance(1, 2) { 0 } else { rng.below(pos as u64 + 1) as u32 },
                chunks,
            },
        );
    }
    let xorb_hashes: Vec<H> = m.xorbs.keys().copied().collect();
    for _ in 0..spec.n_files {
        let nseg = if rng.chance(1, 10) || spec.zero_byte_only { 0 } else { rng.log_range(1, 12) as usize };
        let mut segs = Vec::new();
        for _ in 0..nseg {
            let (xh, nch) = if !xorb_hashes.is_empty() && rng.chance(7, 8) {
                let h = *rng.pick(&xorb_hashes);
                (h, m.xorbs[&h].chunks.len() as u32)
            } else {
                (hg.next(), rng.range(1, 50) as u32)
            };
            let a = rng.below(nch as u64) as u32;
            let b = a + 1 + rng.below((nch - a) as u64) as u32;
            let bytes = match m.xorbs.get(&xh) {
                Some(x) => x.chunks[a as usize..b as usize].iter().map(|c| c.1).fold(0u32, |s, l| s.wrapping_add(l)),
                // a segment of a xorb recorded elsewhere: any 32-bit size, occasionally close to the maximum (a file
                // record may then describe more than 4 GiB)
                None => {
                    if rng.chance(1, 6) {
                        u32::MAX - rng.below(1 << 20) as u32
                    } else {
                        rng.below(1 << 20) as u32
                    }
                },
            };
            segs.push(RefSegment { xorb: xh, flags: 0, bytes, start: a, end: b });
        }
        let fm = match spec.flags_mode % 5 {
            4 => rng.below(4) as u32,
            x => x,
        };
        let mut flags = 0u32;
        let mut verification = Vec::new();
        let mut sha = None;
        if fm & 1 != 0 {
            flags |= FLAG_VERIFICATION;
            for _ in 0..nseg {
                let mut v = [0u8; 32];
                rng.fill(&mut v);
                verification.push(v);
            }
        }
        if fm & 2 != 0 {
            flags |= FLAG_METADATA_EXT;
            let mut v = [0u8; 32];
            rng.fill(&mut v);
            sha = Some(v);
        }
        let hash = hg.next();
        m.files.insert(hash, RefFile { hash, flags, segments: segs, verification, sha256: sha });
    }
    m
}

// ---- conversion --------------------------------------------------------------------------------

pub fn to_cas_info(x: &RefXorbRec) -> MDBCASInfo {
    let mut md = CASChunkSequenceHeader::new(m_of(&x.hash), x.chunks.len() as u32, x.num_bytes);
    md.cas_flags = x.flags;
    md.num_bytes_on_disk = x.num_bytes_on_disk;
    MDBCASInfo {
        metadata: md,
        chunks: x.chunks.iter().map(|(h, l, s)| CASChunkSequenceEntry::new(m_of(h), *l, *s)).collect(),
    }
}

pub fn to_file_info(f: &RefFile) -> MDBFileInfo {
    let mut md = FileDataSequenceHeader::new(m_of(&f.hash), f.segments.len() as u32, f.flags & FLAG_VERIFICATION != 0, f.flags & FLAG_METADATA_EXT != 0);
    md.file_flags = f.flags;
    MDBFileInfo {
        metadata: md,
        segments: f
            .segments
            .iter()
            .map(|s| {
                let mut e = FileDataSequenceEntry::new(m_of(&s.xorb), s.bytes, s.start, s.end);
                e.cas_flags = s.flags;
                e
            })
            .collect(),
        verification: f.verification.iter().map(|v| FileVerificationEntry::new(m_of(v))).collect(),
        metadata_ext: f.sha256.map(|s| FileMetadataExt::new(m_of(&s))),
    }
}

pub fn from_cas_info(c: &MDBCASInfo) -> RefXorbRec {
    RefXorbRec {
        hash: h_of(&c.metadata.cas_hash),
        flags: c.metadata.cas_flags,
        num_bytes: c.metadata.num_bytes_in_cas,
        num_bytes_on_disk: c.metadata.num_bytes_on_disk,
        chunks: c.chunks.iter().map(|e| (h_of(&e.chunk_hash), e.unpacked_segment_bytes, e.chunk_byte_range_start)).collect(),
    }
}

pub fn from_file_info(f: &MDBFileInfo) -> RefFile {
    RefFile {
        hash: h_of(&f.metadata.file_hash),
        flags: f.metadata.file_flags,
        segments: f
            .segments
            .iter()
            .map(|s| RefSegment { xorb: h_of(&s.cas_hash), flags: s.cas_flags, bytes: s.unpacked_segment_bytes, start: s.chunk_index_start, end: s.chunk_index_end })
            .collect(),
        verification: f.verification.iter().map(|v| h_of(&v.range_hash)).collect(),
        sha256: f.metadata_ext.as_ref().map(|m| h_of(&m.sha256)),
    }
}

pub fn to_in_memory(m: &ModelShard) -> MDBInMemoryShard {
    let mut s = MDBInMemoryShard::default();
    for x in m.xorbs.values() {
        s.add_cas_block(to_cas_info(x)).unwrap();
    }
    for f in m.files.values() {
        s.add_file_reconstruction_info(to_file_info(f)).unwrap();
    }
    s
}

pub fn serialize_model(m: &ModelShard) -> (MDBInMemoryShard, Vec<u8>) {
    let s = to_in_memory(m);
    let mut out = Vec::new();
    mdb_shard::MDBShardInfo::serialize_from(&mut out, &s).expect("serialize_from");
    (s, out)
}

/// What the parsed bytes say, as a model (records keyed by hash).
pub fn model_of_parsed(p: &RefShard) -> ModelShard {
    let mut m = ModelShard::default();
    for f in &p.files {
        m.files.insert(f.hash, f.clone());
    }
    for x in &p.xorbs {
        m.xorbs.insert(x.hash, x.clone());
    }
    m
}

// ---- reader seams ------------------------------------------------------------------------------

/// `Read + Seek` over a byte vector that returns short reads drawn from a seed.
pub struct ShortReader<'a> {
    pub data: &'a [u8],
    pub pos: u64,
    pub seed: u64,
    pub n: u64,
    /// 0: full reads; 1: 1..=7 bytes; 2: mixed (1 byte, a few, up to 4096)
    pub mode: u32,
    pub short_reads: u64,
}

impl<'a> ShortReader<'a> {
    pub fn new(data: &'a [u8], seed: u64, mode: u32) -> Self {
        ShortReader { data, pos: 0, seed, n: 0, mode, short_reads: 0 }
    }
    fn quota(&mut self, want: usize) -> usize {
        self.n += 1;
        let r = mix(&[self.seed, self.n]);
        let q = match self.mode % 3 {
            0 => want,
            1 => 1 + (r % 7) as usize,
            _ => match r % 4 {
                0 => 1,
                1 => 1 + ((r >> 8) % 47) as usize,
                2 => 1 + ((r >> 8) % 4096) as usize,
                _ => want,
            },
        };
        let q = q.min(want);
        if q < want {
            self.short_reads += 1;
        }
        q
    }
}

impl Read for ShortReader<'_> {
    fn read(&mut self, buf: &mut [u8]) -> std::io::Result<usize> {
        let avail = self.data.len().saturating_sub(self.pos as usize);
        let want = buf.len().min(avail);
        if want == 0 {
            return Ok(0);
        }
        let n = self.quota(want);
        buf[..n].copy_from_slice(&self.data[self.pos as usize..self.pos as usize + n]);
        self.pos += n as u64;
        Ok(n)
    }
}

impl Seek for ShortReader<'_> {
    fn seek(&mut self, pos: SeekFrom) -> std::io::Result<u64> {
        let np: i128 = match pos {
            SeekFrom::Start(p) => p as i128,
            SeekFrom::End(d) => self.data.len() as i128 + d as i128,
            SeekFrom::Current(d) => self.pos as i128 + d as i128,
        };
        if np < 0 {
            return Err(std::io::Error::new(std::io::ErrorKind::InvalidInput, "seek before start"));
        }
        self.pos = np as u64;
        Ok(self.pos)
    }
}

/// futures::io::AsyncRead with short reads and spurious `Pending`.
pub struct AsyncShortReader<'a> {
    pub inner: ShortReader<'a>,
    pub pendings: u64,
    pub pending_p: u64,
}

impl<'a> AsyncShortReader<'a> {
    pub fn new(data: &'a [u8], seed: u64, mode: u32, pending_p: u64) -> Self {
        AsyncShortReader { inner: ShortReader::new(data, seed, mode), pendings: 0, pending_p }
    }
}

impl futures::io::AsyncRead for AsyncShortReader<'_> {
    fn poll_read(mut self: Pin<&mut Self>, cx: &mut Context<'_>, buf: &mut [u8]) -> Poll<std::io::Result<usize>> {
        self.inner.n += 1;
        let r = mix(&[self.inner.seed, self.inner.n, 0x50]);
        if r % 16 < self.pending_p {
            self.pendings += 1;
            cx.waker().wake_by_ref();
            return Poll::Pending;
        }
        Poll::Ready(self.inner.read(buf))
    }
}


/// Models of a plan: spec i > 0 with `overlap_first` also holds a seeded subset of model 0's records; a shared file
/// may drop its verification and/or metadata part (never alter what it keeps), a shared xorb is identical.
pub fn gen_models(specs: &[ShardSpec]) -> Vec<ModelShard> {
    let mut out: Vec<ModelShard> = Vec::new();
    for (i, sp) in specs.iter().enumerate() {
        let mut m = gen_model(sp);
        if i > 0 {
            if let Some((sel, keep)) = sp.overlap_first {
                let base = out[0].clone();
                let mut rng = Rng::new(sel);
                for (h, x) in &base.xorbs {
                    if rng.below(16) < keep as u64 {
                        m.xorbs.insert(*h, x.clone());
                    }
                }
                for (h, f) in &base.files {
                    if rng.below(16) < keep as u64 {
                        let mut g = f.clone();
                        match rng.below(4) {
                            0 => {
                                g.flags &= !FLAG_VERIFICATION;
                                g.verification.clear();
                            },
                            1 => {
                                g.flags &= !FLAG_METADATA_EXT;
                                g.sha256 = None;
                            },
                            2 => {
                                g.flags &= !(FLAG_METADATA_EXT | FLAG_VERIFICATION);
                                g.sha256 = None;
                                g.verification.clear();
                            },
                            _ => {},
                        }
                        m.files.insert(*h, g);
                    }
                }
            }
        }
        out.push(m);
    }
    out
}
