//! Seeded content generators shared by the engines.

use serde::{Deserialize, Serialize};

use crate::prng::Rng;

#[derive(Clone, Debug, Serialize, Deserialize, PartialEq)]
pub struct ContentSpec {
    /// 0 random, 1 constant, 2 periodic, 3 two-symbol, 4 small alphabet, 5 biased towards gear-table entries with
    /// zero top bits (early matches), 6 random with long constant stretches, 7 float-like (structured 4-byte records)
    pub kind: u32,
    pub seed: u64,
    pub len: usize,
}

pub const N_CONTENT_KINDS: u32 = 9;

/// Kind 8 ("sparse"): random segments alternating with long runs of one byte value (mostly zero). Returns the region
/// lengths (segment, run, segment, run, …) that `gen_content` uses for the same spec.
pub fn sparse_region_lens(spec: &ContentSpec) -> Vec<usize> {
    let mut rng = Rng::new(spec.seed ^ 0x5BA25E);
    let mut out = Vec::new();
    let mut left = spec.len;
    let mut seg = true;
    while left > 0 {
        let l = if seg { rng.urange(1, 3000) } else { *rng.pick(&[64usize, 4095, 4096, 4097, 9000, 20_000]) + rng.urange(0, 300) };
        let l = l.min(left);
        out.push(l);
        left -= l;
        seg = !seg;
    }
    out
}

pub fn gen_content(spec: &ContentSpec) -> Vec<u8> {
    let mut rng = Rng::new(spec.seed ^ 0xC0FFEE);
    let n = spec.len;
    match spec.kind % N_CONTENT_KINDS {
        8 => {
            let mut v = Vec::with_capacity(n);
            let fill = if rng.chance(3, 4) { 0u8 } else { rng.below(256) as u8 };
            for (i, l) in sparse_region_lens(spec).into_iter().enumerate() {
                if i % 2 == 0 {
                    v.extend_from_slice(&rng.bytes(l));
                } else {
                    v.extend(std::iter::repeat(fill).take(l));
                }
            }
            v
        },
        0 => rng.bytes(n),
        1 => vec![rng.below(256) as u8; n],
        2 => {
            let p = match rng.below(4) {
                0 => rng.urange(1, 8),
                1 => rng.urange(60, 68),
                2 => rng.urange(1, 130),
                _ => rng.urange(100, 5000),
            };
            let pat = rng.bytes(p);
            (0..n).map(|i| pat[i % p]).collect()
        },
        3 => {
            let a = rng.below(256) as u8;
            let b = rng.below(256) as u8;
            let mut v = vec![0u8; n];
            let mut i = 0;
            while i < n {
                let w = rng.next_u64();
                for k in 0..64 {
                    if i >= n {
                        break;
                    }
                    v[i] = if (w >> k) & 1 == 0 { a } else { b };
                    i += 1;
                }
            }
            v
        },
        4 => {
            let k = rng.urange(2, 5);
            let alpha = rng.bytes(k);
            (0..n).map(|_| alpha[rng.usize_below(k)]).collect()
        },
        5 => {
            // bytes whose gear-table entry has many leading zero bits: matches come early under every mask
            let table = &gearhash::DEFAULT_TABLE;
            let mut idx: Vec<u8> = (0..=255u8).collect();
            idx.sort_by_key(|&b| std::cmp::Reverse(table[b as usize].leading_zeros()));
            let k = rng.urange(1, 6);
            let alpha: Vec<u8> = idx[..k].to_vec();
            let mix = rng.urange(0, 3);
            (0..n)
                .map(|_| {
                    if mix > 0 && rng.below(16) < mix as u64 {
                        rng.below(256) as u8
                    } else {
                        alpha[rng.usize_below(k)]
                    }
                })
                .collect()
        },
        6 => {
            let mut v = rng.bytes(n);
            let mut pos = 0usize;
            while pos < n {
                let gap = rng.log_range(16, 200_000) as usize;
                let run = rng.log_range(16, 400_000) as usize;
                pos = pos.saturating_add(gap);
                if pos >= n {
                    break;
                }
                let end = (pos + run).min(n);
                let b = rng.below(256) as u8;
                for x in &mut v[pos..end] {
                    *x = b;
                }
                pos = end;
            }
            v
        },
        _ => {
            // float-like: slowly varying little-endian f32 values
            let mut v = Vec::with_capacity(n + 4);
            let mut x = (rng.below(1000) as f32) / 7.0;
            while v.len() < n {
                x += ((rng.below(2001) as f32) - 1000.0) / 100_000.0;
                v.extend_from_slice(&x.to_le_bytes());
            }
            v.truncate(n);
            v
        },
    }
}
