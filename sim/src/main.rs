use std::path::PathBuf;

use xsim::core::*;
use xsim::engines;

fn arg_val(args: &[String], name: &str) -> Option<String> {
    args.iter().position(|a| a == name).and_then(|i| args.get(i + 1).cloned())
}

fn usage() -> ! {
    eprintln!("usage: xsim check <PROP> [--tier quick|thorough] [--seed N] [--jobs J] [--runs N] [--wall S]\n       xsim replay <file>\n       xsim list");
    std::process::exit(2)
}

fn main() {
    let args: Vec<String> = std::env::args().collect();
    if args.len() < 2 {
        usage();
    }
    match args[1].as_str() {
        "list" => {
            for e in engines::all() {
                println!("{} {:?}", e.name(), e.properties());
            }
        },
        "check" => {
            let focus = args.get(2).cloned().unwrap_or_else(|| usage());
            let engine = engines::for_property(&focus).unwrap_or_else(|| {
                eprintln!("xsim: no engine serves property {focus}");
                std::process::exit(2)
            });
            let tier = Tier::parse(
                &arg_val(&args, "--tier")
                    .or_else(|| std::env::var("VERIF_TIER").ok())
                    .unwrap_or_else(|| "quick".into()),
            );
            let seed = arg_val(&args, "--seed")
                .or_else(|| std::env::var("VERIF_SEED").ok())
                .and_then(|s| s.trim().parse::<u64>().ok())
                .unwrap_or(20261003);
            let jobs = arg_val(&args, "--jobs")
                .and_then(|s| s.parse().ok())
                .unwrap_or_else(|| std::thread::available_parallelism().map(|n| n.get()).unwrap_or(4));
            let code = check_main(
                engine,
                CheckArgs {
                    focus,
                    tier,
                    seed,
                    jobs,
                    verif_dir: verif_dir(),
                    runs_override: arg_val(&args, "--runs").and_then(|s| s.parse().ok()),
                    wall_override: arg_val(&args, "--wall").and_then(|s| s.parse().ok()),
                },
            );
            std::process::exit(code);
        },
        "worker" => {
            let focus = args.get(2).cloned().unwrap_or_else(|| usage());
            let engine = engines::for_property(&focus).expect("engine");
            let known = arg_val(&args, "--known")
                .map(|p| KnownFindings::load(&PathBuf::from(p)))
                .unwrap_or_default();
            let g = |n: &str| arg_val(&args, n).and_then(|s| s.parse::<u64>().ok()).unwrap_or(0);
            worker_main(
                engine,
                WorkerArgs {
                    focus,
                    tier: Tier::parse(&arg_val(&args, "--tier").unwrap_or_default()),
                    seed: g("--seed"),
                    chunk: g("--chunk"),
                    first_run: g("--first"),
                    n_runs: g("--n"),
                    known,
                    deadline_s: arg_val(&args, "--deadline").and_then(|s| s.parse().ok()).unwrap_or(1e9),
                    heartbeat: arg_val(&args, "--hb").map(PathBuf::from),
                },
            );
        },
        "replay" => {
            let path = PathBuf::from(args.get(2).cloned().unwrap_or_else(|| usage()));
            let file = replay_prepare_env(&path);
            let engine = file["engine"]
                .as_str()
                .and_then(engines::by_name)
                .or_else(|| file["focus"].as_str().and_then(engines::for_property))
                .unwrap_or_else(|| {
                    eprintln!("xsim: replay file names no known engine");
                    std::process::exit(2)
                });
            std::process::exit(replay_main(engine, &file, &path));
        },
        "digest" => {
            // determinism proof aid: one line per run with everything the run observed (signature, counters,
            // violations); two executions of the same (seed, run) must print identical lines
            let focus = args.get(2).cloned().unwrap_or_else(|| usage());
            let engine = engines::for_property(&focus).expect("engine");
            install_quiet_panic_hook();
            engine.worker_init();
            let g = |n: &str| arg_val(&args, n).and_then(|s| s.parse::<u64>().ok());
            let seed = g("--seed").unwrap_or(20261003);
            let first = g("--first").unwrap_or(0);
            let n = g("--n").unwrap_or(10);
            let tier = Tier::parse(&arg_val(&args, "--tier").unwrap_or_default());
            for run in first..first + n {
                let plan = engine.gen_plan(seed, run, &focus, tier);
                let rep = run_caught(engine, &plan, &focus);
                let mut v: Vec<String> = rep.violations.iter().map(|v| format!("{}|{}", v.clause, v.site)).collect();
                v.sort();
                println!(
                    "{run} sig={:016x} nt={} sim_ms={} counters={} violations={:?}",
                    rep.signature,
                    rep.nontrivial,
                    rep.sim_ms,
                    serde_json::to_string(&rep.counters).unwrap(),
                    v
                );
            }
        },
        "plan" => {
            // debugging aid: print the plan of one run
            let focus = args.get(2).cloned().unwrap_or_else(|| usage());
            let engine = engines::for_property(&focus).expect("engine");
            let g = |n: &str| arg_val(&args, n).and_then(|s| s.parse::<u64>().ok());
            let plan = engine.gen_plan(g("--seed").unwrap_or(20261003), g("--run").unwrap_or(0), &focus, Tier::parse(&arg_val(&args, "--tier").unwrap_or_default()));
            println!("{}", serde_json::to_string_pretty(&plan).unwrap());
        },
        _ => usage(),
    }
}
