//! Cooperative scheduler for synchronous code called from several threads: simulated threads are real OS threads,
//! but exactly one runs at a time. At each `point(label)` the running thread parks and the next thread to run is
//! picked from the schedule stream. The schedule of a run is the sequence of (thread, label) picks.

use std::sync::{Arc, Condvar, Mutex};

use crate::prng::Rng;

#[derive(Clone, Copy, Debug, PartialEq, Eq)]
enum TState {
    NotStarted,
    Ready(&'static str),
    Running,
    Finished,
}

struct Inner {
    states: Vec<TState>,
    current: Option<usize>,
    rng: Rng,
    /// 0 uniform; 1 sticky (continue the running thread with probability 3/4); 2 run-to-completion with a budget
    /// of pre-emptions; 3 priorities with change points (PCT-like)
    strategy: u32,
    preemptions_left: u32,
    priorities: Vec<u64>,
    change_points: Vec<u64>,
    n_picks: u64,
    switches: u64,
    pub trace: Vec<(usize, &'static str)>,
    trace_on: bool,
    max_picks: u64,
    overflow: bool,
    /// consecutive picks at which the picked thread only reported "blocked" (nothing else happened)
    idle_streak: u64,
    pub stalled: bool,
}

pub struct Sched {
    inner: Mutex<Inner>,
    cv: Condvar,
}

pub type PointObserver = dyn Fn(usize, &'static str) + Send + Sync;

impl Sched {
    pub fn new(n_threads: usize, seed: u64, strategy: u32, trace_on: bool) -> Arc<Self> {
        let mut rng = Rng::new(seed);
        let priorities = (0..n_threads).map(|_| rng.next_u64()).collect();
        let change_points = (0..3).map(|_| rng.below(200)).collect();
        let preemptions_left = rng.range(0, 4) as u32;
        Arc::new(Sched {
            inner: Mutex::new(Inner {
                states: vec![TState::NotStarted; n_threads],
                current: None,
                rng,
                strategy,
                preemptions_left,
                priorities,
                change_points,
                n_picks: 0,
                switches: 0,
                trace: Vec::new(),
                trace_on,
                max_picks: 200_000,
                overflow: false,
                idle_streak: 0,
                stalled: false,
            }),
            cv: Condvar::new(),
        })
    }

    fn pick(inner: &mut Inner, me: Option<usize>) {
        let ready: Vec<usize> = inner
            .states
            .iter()
            .enumerate()
            .filter(|(_, s)| matches!(s, TState::Ready(_)))
            .map(|(i, _)| i)
            .collect();
        if ready.is_empty() {
            inner.current = None;
            return;
        }
        inner.n_picks += 1;
        if inner.n_picks > inner.max_picks {
            inner.overflow = true;
        }
        let me_ready = me.filter(|m| ready.contains(m));
        let chosen = match inner.strategy % 4 {
            0 => ready[inner.rng.usize_below(ready.len())],
            1 => match me_ready {
                Some(m) if inner.rng.below(4) != 0 => m,
                _ => ready[inner.rng.usize_below(ready.len())],
            },
            2 => match me_ready {
                Some(m) => {
                    if inner.preemptions_left > 0 && inner.rng.below(8) == 0 {
                        inner.preemptions_left -= 1;
                        ready[inner.rng.usize_below(ready.len())]
                    } else {
                        m
                    }
                },
                None => ready[inner.rng.usize_below(ready.len())],
            },
            _ => {
                if inner.change_points.contains(&inner.n_picks) {
                    if let Some(m) = me {
                        inner.priorities[m] = inner.rng.next_u64() >> 8; // demote
                    }
                }
                *ready.iter().max_by_key(|&&i| inner.priorities[i]).unwrap()
            },
        };
        if Some(chosen) != me {
            inner.switches += 1;
        }
        if let TState::Ready(label) = inner.states[chosen] {
            if inner.trace_on {
                inner.trace.push((chosen, label));
            }
        }
        inner.states[chosen] = TState::Running;
        inner.current = Some(chosen);
    }

    /// Called by a simulated thread before its first action; returns when the thread is scheduled.
    pub fn enter(&self, tid: usize) {
        let mut g = self.inner.lock().unwrap();
        g.states[tid] = TState::Ready("start");
        // the last thread to arrive starts the show
        if g.current.is_none() && g.states.iter().all(|s| !matches!(s, TState::NotStarted)) {
            Self::pick(&mut g, None);
            self.cv.notify_all();
        }
        while g.current != Some(tid) {
            g = self.cv.wait(g).unwrap();
        }
    }

    /// Schedule point: park, pick the next thread (possibly this one), wait to be picked again.
    pub fn point(&self, tid: usize, label: &'static str) {
        let mut g = self.inner.lock().unwrap();
        if g.current != Some(tid) {
            // a point hit outside the protocol (e.g. from a thread that is not simulated): ignore
            return;
        }
        g.states[tid] = TState::Ready(label);
        g.idle_streak = 0;
        Self::pick(&mut g, Some(tid));
        if g.current != Some(tid) {
            self.cv.notify_all();
            while g.current != Some(tid) {
                g = self.cv.wait(g).unwrap();
            }
        }
    }

    /// Like `point`, for a thread that cannot make progress by itself (its future is pending): another ready thread
    /// is preferred whenever there is one. Returns true when every unfinished thread has only been reporting
    /// "blocked" for a long time — nobody can make progress any more (lost wake-up / deadlock).
    pub fn blocked(&self, tid: usize) -> bool {
        let mut g = self.inner.lock().unwrap();
        if g.current != Some(tid) {
            return g.stalled;
        }
        g.idle_streak += 1;
        if g.idle_streak > 2_000 {
            g.stalled = true;
        }
        if g.stalled {
            return true;
        }
        g.states[tid] = TState::Ready("blocked");
        let others: Vec<usize> = g.states.iter().enumerate().filter(|(i, s)| *i != tid && matches!(s, TState::Ready(_))).map(|(i, _)| i).collect();
        if others.is_empty() {
            g.states[tid] = TState::Running;
            return false;
        }
        let k = g.rng.usize_below(others.len());
        let chosen = others[k];
        g.n_picks += 1;
        g.switches += 1;
        if let TState::Ready(label) = g.states[chosen] {
            if g.trace_on {
                g.trace.push((chosen, label));
            }
        }
        g.states[chosen] = TState::Running;
        g.current = Some(chosen);
        self.cv.notify_all();
        while g.current != Some(tid) {
            g = self.cv.wait(g).unwrap();
        }
        g.stalled
    }

    pub fn is_stalled(&self) -> bool {
        self.inner.lock().unwrap().stalled
    }

    pub fn finish(&self, tid: usize) {
        let mut g = self.inner.lock().unwrap();
        g.states[tid] = TState::Finished;
        g.idle_streak = 0;
        if g.current == Some(tid) {
            Self::pick(&mut g, None);
            self.cv.notify_all();
        }
    }

    pub fn rand(&self) -> u64 {
        self.inner.lock().unwrap().rng.next_u64()
    }

    pub fn stats(&self) -> (u64, u64, bool) {
        let g = self.inner.lock().unwrap();
        (g.n_picks, g.switches, g.overflow)
    }

    pub fn take_trace(&self) -> Vec<(usize, &'static str)> {
        std::mem::take(&mut self.inner.lock().unwrap().trace)
    }
}

/// Per-thread hooks object: forwards `point` to the scheduler and serves seeded random draws.
pub struct ThreadHooks {
    pub sched: Arc<Sched>,
    pub tid: usize,
    pub observer: Option<Arc<PointObserver>>,
}

thread_local! {
    static IN_POINT: std::cell::Cell<bool> = const { std::cell::Cell::new(false) };
}

impl utils::verif::Hooks for ThreadHooks {
    fn point(&self, label: &'static str) {
        // the observer may itself call into hooked code (e.g. take a lock that is a schedule point): points hit from
        // inside a point are not schedule points
        if IN_POINT.with(|c| c.replace(true)) {
            return;
        }
        if let Some(o) = &self.observer {
            o(self.tid, label);
        }
        IN_POINT.with(|c| c.set(false));
        self.sched.point(self.tid, label);
    }
    fn rand_usize(&self) -> Option<usize> {
        Some(self.sched.rand() as usize)
    }
}

/// Drives a simulated thread's future on that thread's own runtime: whenever the future is pending the thread hands
/// control to the scheduler and asks to be polled again. Resolves to None when the scheduler found that nobody can
/// make progress any more.
pub struct SchedStepper<F> {
    inner: std::pin::Pin<Box<F>>,
    sched: Arc<Sched>,
    tid: usize,
    pending: Arc<std::sync::atomic::AtomicU64>,
}

impl<F: std::future::Future> SchedStepper<F> {
    pub fn new(f: F, sched: Arc<Sched>, tid: usize) -> Self {
        SchedStepper { inner: Box::pin(f), sched, tid, pending: Arc::new(std::sync::atomic::AtomicU64::new(0)) }
    }
    /// number of times the future was found pending (a lock held elsewhere, a result not there yet)
    pub fn pending_counter(&self) -> Arc<std::sync::atomic::AtomicU64> {
        self.pending.clone()
    }
}

impl<F: std::future::Future> std::future::Future for SchedStepper<F> {
    type Output = Option<F::Output>;
    fn poll(mut self: std::pin::Pin<&mut Self>, cx: &mut std::task::Context<'_>) -> std::task::Poll<Self::Output> {
        match self.inner.as_mut().poll(cx) {
            std::task::Poll::Ready(v) => std::task::Poll::Ready(Some(v)),
            std::task::Poll::Pending => {
                self.pending.fetch_add(1, std::sync::atomic::Ordering::SeqCst);
                if self.sched.blocked(self.tid) {
                    return std::task::Poll::Ready(None);
                }
                cx.waker().wake_by_ref();
                std::task::Poll::Pending
            },
        }
    }
}
