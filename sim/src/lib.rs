pub mod content;
pub mod core;
pub mod engines;
pub mod prng;
pub mod refmodel;
pub mod sched;
pub mod shardmodel;
pub mod simstore;
