//! Concurrent callers of one `ShardFileManager` (a mode of the C11 check): the manager is what makes a session's new
//! xorbs and files end up in that session's shards while several files are cleaned at once on a multi-threaded
//! runtime. Every caller is an OS thread with its own runtime under the cooperative one-thread-at-a-time scheduler
//! (`sched.rs`); threads switch at the named points inside the shard write-out (H7), between operations, and
//! whenever a caller's future is pending (a lock held by another caller). Oracle: every record whose add returned Ok
//! is in some shard file of the directory after the final flush, and the manager finds it.

use std::collections::BTreeMap;
use std::sync::{Arc, Mutex};

use mdb_shard::ShardFileManager;
use serde::{Deserialize, Serialize};

use crate::core::*;
use crate::engines::session::scratch_dir;
use crate::prng::{mix, Rng};
use crate::refmodel::*;
use crate::sched::{Sched, SchedStepper, ThreadHooks};
use crate::shardmodel::*;

#[derive(Clone, Debug, Serialize, Deserialize, PartialEq)]
pub enum MgrOp {
    /// add xorb number i (mod count) of the thread's model
    AddXorb(u32),
    AddFile(u32),
    Flush,
    /// query the first chunk of xorb i of the thread's own model
    Query(u32),
}

#[derive(Clone, Debug, Serialize, Deserialize, PartialEq)]
pub struct MgrPlan {
    /// one model per thread (disjoint seeds)
    pub specs: Vec<ShardSpec>,
    pub ops: Vec<Vec<MgrOp>>,
    pub schedule_seed: u64,
    pub strategy: u32,
}

pub fn gen_mgr(rng: &mut Rng) -> MgrPlan {
    let n = rng.range(2, 4) as usize;
    let mut specs = Vec::new();
    let mut ops = Vec::new();
    for _ in 0..n {
        let s = ShardSpec {
            seed: rng.next_u64(),
            n_files: rng.range(0, 4) as u32,
            n_xorbs: rng.range(1, 6) as u32,
            max_chunks: rng.range(1, 10) as u32,
            hash_style: 0,
            flags_mode: rng.below(5) as u32,
            dup_chunks: 0,
            overlap_first: None,
            zero_byte_only: false,
            offsets_style: 0,
        };
        let mut v = Vec::new();
        for i in 0..s.n_xorbs {
            v.push(MgrOp::AddXorb(i));
            if rng.chance(1, 4) {
                v.push(MgrOp::Flush);
            }
            if rng.chance(1, 4) {
                v.push(MgrOp::Query(rng.below(s.n_xorbs as u64) as u32));
            }
        }
        for i in 0..s.n_files {
            v.push(MgrOp::AddFile(i));
            if rng.chance(1, 5) {
                v.push(MgrOp::Flush);
            }
        }
        if rng.chance(1, 2) {
            v.push(MgrOp::Flush);
        }
        specs.push(s);
        ops.push(v);
    }
    MgrPlan { specs, ops, schedule_seed: rng.next_u64(), strategy: rng.below(4) as u32 }
}

#[derive(Default)]
struct Added {
    xorbs: Vec<(usize, H)>,
    files: Vec<(usize, H)>,
    errors: Vec<String>,
    queries: u64,
    query_hits: u64,
    pending_polls: u64,
}

pub fn run_mgr(p: &MgrPlan, rep: &mut RunReport, focus: &str) {
    // C11: the record must be in the session's shards; C01: without its file record a file cannot be downloaded
    let (ca, cb) = if focus == "C01" { ("C01.a", "C01.a") } else { ("C11.a", "C11.b") };
    let dir = scratch_dir("m");
    let _g = crate::engines::session::ScratchGuard(dir.clone());
    let sdir = dir.join("session-shards");
    std::fs::create_dir_all(&sdir).unwrap();
    let models: Vec<ModelShard> = p.specs.iter().map(gen_model).collect();
    let n = models.len();
    let rt0 = tokio::runtime::Builder::new_current_thread().enable_all().build().unwrap();
    let mgr: Arc<ShardFileManager> = match rt0.block_on(ShardFileManager::new_in_session_directory(&sdir)) {
        Ok(m) => m,
        Err(e) => {
            rep.harness_fault = Some(format!("manager creation failed: {e}"));
            return;
        },
    };
    let sched = Sched::new(n, p.schedule_seed, p.strategy, std::env::var("XSIM_TRACE").is_ok());
    let added = Arc::new(Mutex::new(Added::default()));
    let mut hs = Vec::new();
    for t in 0..n {
        let sched = sched.clone();
        let mgr = mgr.clone();
        let model = models[t].clone();
        let ops = p.ops[t].clone();
        let added = added.clone();
        hs.push(std::thread::spawn(move || {
            utils::verif::install(Some(Arc::new(ThreadHooks { sched: sched.clone(), tid: t, observer: None })));
            sched.enter(t);
            let rt = tokio::runtime::Builder::new_current_thread().enable_all().build().unwrap();
            let xs: Vec<RefXorbRec> = model.xorbs.values().cloned().collect();
            let fs: Vec<RefFile> = model.files.values().cloned().collect();
            let a2 = added.clone();
            let main = async move {
                for op in ops {
                    utils::verif::point("mgr:between_ops");
                    match op {
                        MgrOp::AddXorb(i) if !xs.is_empty() => {
                            let x = &xs[i as usize % xs.len()];
                            match mgr.add_cas_block(to_cas_info(x)).await {
                                Ok(()) => a2.lock().unwrap().xorbs.push((t, x.hash)),
                                Err(e) => a2.lock().unwrap().errors.push(format!("thread {t} add_cas_block: {e}")),
                            }
                        },
                        MgrOp::AddFile(i) if !fs.is_empty() => {
                            let f = &fs[i as usize % fs.len()];
                            match mgr.add_file_reconstruction_info(to_file_info(f)).await {
                                Ok(()) => a2.lock().unwrap().files.push((t, f.hash)),
                                Err(e) => a2.lock().unwrap().errors.push(format!("thread {t} add_file_reconstruction_info: {e}")),
                            }
                        },
                        MgrOp::Flush => {
                            if let Err(e) = mgr.flush().await {
                                a2.lock().unwrap().errors.push(format!("thread {t} flush: {e}"));
                            }
                        },
                        MgrOp::Query(i) if !xs.is_empty() => {
                            let x = &xs[i as usize % xs.len()];
                            if let Some(c) = x.chunks.first() {
                                let r = mgr.chunk_hash_dedup_query(&[m_of(&c.0)]).await;
                                let mut a = a2.lock().unwrap();
                                a.queries += 1;
                                if matches!(r, Ok(Some(_))) {
                                    a.query_hits += 1;
                                }
                            }
                        },
                        _ => {},
                    }
                }
            };
            let stepper = SchedStepper::new(main, sched.clone(), t);
            let polls = stepper.pending_counter();
            let _ = rt.block_on(stepper);
            added.lock().unwrap().pending_polls += polls.load(std::sync::atomic::Ordering::SeqCst);
            drop(rt);
            utils::verif::install(None);
            sched.finish(t);
        }));
    }
    for h in hs {
        let _ = h.join();
    }
    let stalled = sched.is_stalled();
    let (picks, switches, overflow) = sched.stats();
    if stalled {
        rep.violate(ca, "manager:callers-stalled", "concurrent callers of the shard manager all stayed pending (2000 consecutive idle picks)".into());
    }
    // the session's final flush, then what the directory holds
    let fin = rt0.block_on(mgr.flush());
    if let Err(e) = fin {
        rep.violate(ca, "manager:final-flush-error", format!("{e}"));
    }
    let mut on_disk = ModelShard::default();
    let mut n_shards = 0u64;
    if let Ok(rd) = std::fs::read_dir(&sdir) {
        let mut es: Vec<_> = rd.flatten().collect();
        es.sort_by_key(|e| e.file_name());
        for e in es {
            let name = e.file_name().to_string_lossy().to_string();
            if name.ends_with(".mdb") && !name.starts_with('.') {
                n_shards += 1;
                match ref_shard_parse(&std::fs::read(e.path()).unwrap_or_default()) {
                    Ok(ps) => {
                        for f in ps.files {
                            on_disk.files.entry(f.hash).or_insert(f);
                        }
                        for x in ps.xorbs {
                            on_disk.xorbs.entry(x.hash).or_insert(x);
                        }
                    },
                    Err(er) => rep.violate(ca, "manager:shard-unparsable", format!("{name}: {er}")),
                }
            }
        }
    }
    let a = added.lock().unwrap();
    for e in &a.errors {
        rep.violate(ca, "manager:op-error", e.clone());
    }
    let by_hash: BTreeMap<H, &RefXorbRec> = models.iter().flat_map(|m| m.xorbs.values()).map(|x| (x.hash, x)).collect();
    // (for C01 only the file records matter: a download needs the file's segment list, not the xorb's chunk list)
    for (t, h) in a.xorbs.iter().filter(|_| focus != "C01") {
        match on_disk.xorbs.get(h) {
            Some(x) if Some(&x) == by_hash.get(h) => {},
            Some(_) => rep.violate(ca, "manager:xorb-record-altered", format!("xorb {} added by caller {t} is listed with a different chunk list", ref_hex(h))),
            None => rep.violate(
                ca,
                "manager:xorb-record-lost-under-concurrency",
                format!("add_cas_block of xorb {} by caller {t} returned Ok, but no shard of the session directory lists it after the final flush ({n_shards} shards)", ref_hex(h)),
            ),
        }
    }
    for (t, h) in &a.files {
        if !on_disk.files.contains_key(h) {
            rep.violate(
                ca,
                "manager:file-record-lost-under-concurrency",
                format!("add_file_reconstruction_info of file {} by caller {t} returned Ok, but no shard of the session directory holds it after the final flush ({n_shards} shards)", ref_hex(h)),
            );
        }
    }
    // the manager itself finds every added xorb's first chunk (hash_style 0: unique prefixes) — unless the cap of its
    // chunk index (a designed exception) may have been reached: it stops indexing once the entries indexed so far
    // reach the cap, which cannot happen while all entries together stay below it
    let index_cap: usize = std::env::var("HF_XET_CHUNK_INDEX_TABLE_MAX_SIZE").ok().and_then(|v| v.parse().ok()).unwrap_or(64 << 20);
    let total_entries: usize = a.xorbs.iter().filter_map(|(_, h)| by_hash.get(h)).map(|x| x.chunks.len()).sum();
    let cap_may_apply = total_entries >= index_cap;
    rep.count("probe:manager_mt_runs_excluded_from_query_clause_by_index_cap", cap_may_apply as u64);
    for (t, h) in a.xorbs.iter().filter(|_| !cap_may_apply && focus != "C01") {
        if let Some(c) = by_hash.get(h).and_then(|x| x.chunks.first()) {
            match rt0.block_on(mgr.chunk_hash_dedup_query(&[m_of(&c.0)])) {
                Ok(Some(_)) => {},
                Ok(None) => rep.violate(cb, "manager:chunk-not-found-after-concurrent-adds", format!("first chunk of xorb {} (caller {t}) is not found by the manager after the final flush", ref_hex(h))),
                Err(e) => rep.violate(ca, "manager:query-error", format!("{e}")),
            }
        }
    }
    rep.count("manager_mt_runs", 1);
    rep.count("manager_mt_records_added", (a.xorbs.len() + a.files.len()) as u64);
    rep.count("manager_mt_shards_written", n_shards);
    rep.count("probe:manager_mt_caller_found_lock_held", a.pending_polls);
    rep.count("probe:manager_mt_thread_switches", switches);
    rep.count("probe:manager_mt_schedule_overflow", overflow as u64);
    rep.nontrivial = a.pending_polls > 0 && n_shards >= 2;
    rep.signature = mix(&[p.schedule_seed, picks, switches, a.pending_polls, n_shards]);
    rep.sample = Some(serde_json::json!({"mode": "manager-mt", "callers": n, "ops": p.ops.iter().map(|v| v.len()).collect::<Vec<_>>(), "shards": n_shards, "pending_polls": a.pending_polls}));
}
