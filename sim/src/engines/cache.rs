//! `cache` engine (C12, C13): real `chunk_cache::DiskCache` driven by 2-4 simulated threads under the cooperative
//! scheduler (one OS thread runs at a time, switches only at the H4 points), with racing deletions, on-disk damage
//! while closed and re-opens. Oracle: a *virtual xorb* per key, so every (key, range) has exactly one legal answer.

use std::collections::{BTreeMap, HashMap};
use std::path::{Path, PathBuf};
use std::sync::{Arc, Mutex};

use cas_types::{ChunkRange, Key};
use chunk_cache::{CacheConfig, ChunkCache, DiskCache};
use serde::{Deserialize, Serialize};
use serde_json::{json, Value};

use crate::core::*;
use crate::engines::session::{scratch_dir, ScratchGuard};
use crate::prng::{mix, Rng};
use crate::refmodel::{h_of, m_of, H};
use crate::sched::{Sched, ThreadHooks};

pub struct CacheEngine;

#[derive(Clone, Debug, Serialize, Deserialize, PartialEq)]
pub struct KeySpec {
    pub seed: u64,
    pub n_chunks: u32,
    /// 0: tiny chunks (1..16 B), 1: small (1..400 B), 2: mixed incl. a few KiB
    pub len_style: u32,
}

#[derive(Clone, Debug, Serialize, Deserialize, PartialEq)]
pub enum Op {
    Put { key: usize, a: u32, b: u32 },
    Get { key: usize, a: u32, b: u32 },
    /// racing deletion of a cache file (picked from the sorted directory listing at that moment)
    DeleteFile { pick: u64 },
    /// a put with inconsistent arguments built from the true content: 0 data with trailing extra bytes, 1 range one
    /// chunk wider than the offsets, 2 range one chunk narrower, 3 empty range, 4 data one byte short. It may be
    /// refused (the shipped code refuses all of them) or stored; either way later hits must return true slices.
    BadPut { key: usize, a: u32, b: u32, kind: u32 },
}

#[derive(Clone, Debug, Serialize, Deserialize, PartialEq)]
pub enum Damage {
    Flip { pick: u64, at: u64, bits: u32 },
    Truncate { pick: u64, keep: u64 },
    Extend { pick: u64, n: u32 },
    Delete { pick: u64 },
    /// level 0 root, 1 prefix dir, 2 key dir; kind: 0 junk file, 1 junk dir, 2 short base64 name dir/file, 3 well-formed-looking name
    Junk { level: u32, kind: u32, pick: u64 },
    /// 0 junk name, 1 other length in the name, 2 other checksum in the name, 3 same length+checksum but shifted range,
    /// 4 same length+checksum but another range width, 5 moved unchanged under another key's directory,
    /// 6 same length+checksum but a narrower range that starts later, 7 rewritten with two header offsets swapped
    /// under a name whose length and checksum match the new bytes
    Rename { pick: u64, kind: u32 },
    /// a plain file that is none of the cache's business, left in the root (level 0) or in a prefix directory
    /// (level 1) — the scan is documented to skip it. Not damage: the accounting clauses stay in force.
    Stray { level: u32, pick: u64 },
}

#[derive(Clone, Debug, Serialize, Deserialize, PartialEq)]
pub struct Phase {
    pub threads: Vec<Vec<Op>>,
    pub damage_after: Vec<Damage>,
    /// capacity of this phase's (re-)open in percent of the plan's capacity (C12 only; 100 = unchanged). A smaller
    /// capacity leaves well-formed files on disk that the scan does not track.
    #[serde(default = "hundred")]
    pub capacity_pct: u32,
}

fn hundred() -> u32 {
    100
}

#[derive(Clone, Debug, Serialize, Deserialize, PartialEq)]
pub struct Plan {
    pub keys: Vec<KeySpec>,
    pub capacity: u64,
    pub phases: Vec<Phase>,
    pub schedule_seed: u64,
    pub strategy: u32,
}

// ---- virtual xorbs -------------------------------------------------------------------------------

pub struct VKey {
    pub key: Key,
    pub lens: Vec<u32>,
    pub data: Vec<Vec<u8>>,
}

pub fn vkey(spec: &KeySpec, idx: usize) -> VKey {
    let mut rng = Rng::new(spec.seed);
    let mut hb = [0u8; 32];
    rng.fill(&mut hb);
    let mut lens = Vec::new();
    let mut data = Vec::new();
    for i in 0..spec.n_chunks {
        let l = match spec.len_style % 3 {
            0 => rng.range(1, 16),
            1 => rng.range(1, 400),
            _ => {
                if rng.chance(1, 5) {
                    rng.range(1000, 6000)
                } else {
                    rng.range(1, 300)
                }
            },
        } as u32;
        lens.push(l);
        let mut d = vec![0u8; l as usize];
        Rng::new(mix(&[spec.seed, i as u64, 77])).fill(&mut d);
        data.push(d);
    }
    VKey {
        key: Key {
            prefix: if idx % 2 == 0 { "default".to_string() } else { "".to_string() },
            hash: m_of(&hb),
        },
        lens,
        data,
    }
}

impl VKey {
    pub fn slice(&self, a: u32, b: u32) -> (Vec<u32>, Vec<u8>) {
        let mut off = vec![0u32];
        let mut d = Vec::new();
        for i in a..b {
            d.extend_from_slice(&self.data[i as usize]);
            off.push(d.len() as u32);
        }
        (off, d)
    }
    pub fn item_len(&self, a: u32, b: u32) -> u64 {
        let n = (b - a) as u64;
        4 * (n + 2) + self.lens[a as usize..b as usize].iter().map(|&l| l as u64).sum::<u64>()
    }
}

// ---- independent name codecs (URL-safe base64 with padding) --------------------------------------

const B64: &[u8; 64] = b"ABCDEFGHIJKLMNOPQRSTUVWXYZabcdefghijklmnopqrstuvwxyz0123456789-_";

pub fn b64_encode(data: &[u8]) -> String {
    let mut out = String::new();
    for c in data.chunks(3) {
        let n = (c[0] as u32) << 16 | (*c.get(1).unwrap_or(&0) as u32) << 8 | *c.get(2).unwrap_or(&0) as u32;
        out.push(B64[(n >> 18) as usize & 63] as char);
        out.push(B64[(n >> 12) as usize & 63] as char);
        out.push(if c.len() > 1 { B64[(n >> 6) as usize & 63] as char } else { '=' });
        out.push(if c.len() > 2 { B64[n as usize & 63] as char } else { '=' });
    }
    out
}

pub fn b64_decode(s: &str) -> Option<Vec<u8>> {
    let b = s.as_bytes();
    if b.len() % 4 != 0 {
        return None;
    }
    let mut out = Vec::new();
    for q in b.chunks(4) {
        let mut n = 0u32;
        let mut pad = 0;
        for (i, &c) in q.iter().enumerate() {
            let v = if c == b'=' {
                if i < 2 {
                    return None;
                }
                pad += 1;
                0
            } else {
                if pad > 0 {
                    return None;
                }
                B64.iter().position(|&x| x == c)? as u32
            };
            n = n << 6 | v;
        }
        out.push((n >> 16) as u8);
        if pad < 2 {
            out.push((n >> 8) as u8);
        }
        if pad < 1 {
            out.push(n as u8);
        }
    }
    Some(out)
}

pub fn item_name(a: u32, b: u32, len: u64, crc: u32) -> String {
    let mut buf = Vec::new();
    buf.extend_from_slice(&a.to_le_bytes());
    buf.extend_from_slice(&b.to_le_bytes());
    buf.extend_from_slice(&len.to_le_bytes());
    buf.extend_from_slice(&crc.to_le_bytes());
    b64_encode(&buf)
}

pub fn parse_item_name(name: &str) -> Option<(u32, u32, u64, u32)> {
    let b = b64_decode(name)?;
    if b.len() != 20 {
        return None;
    }
    Some((
        u32::from_le_bytes(b[0..4].try_into().ok()?),
        u32::from_le_bytes(b[4..8].try_into().ok()?),
        u64::from_le_bytes(b[8..16].try_into().ok()?),
        u32::from_le_bytes(b[16..20].try_into().ok()?),
    ))
}

pub fn key_dir_name(k: &Key) -> String {
    let mut buf = h_of(&k.hash).to_vec();
    buf.extend_from_slice(k.prefix.as_bytes());
    b64_encode(&buf)
}

pub fn parse_key_dir(name: &str) -> Option<(H, String)> {
    let b = b64_decode(name)?;
    if b.len() < 32 {
        return None;
    }
    let mut h = [0u8; 32];
    h.copy_from_slice(&b[..32]);
    Some((h, String::from_utf8(b[32..].to_vec()).ok()?))
}

/// All regular files three levels below the root: (path, key dir name, file name, size), sorted by path.
pub fn list_files(root: &Path) -> Vec<(PathBuf, String, String, u64)> {
    let mut out = Vec::new();
    let Ok(rd) = std::fs::read_dir(root) else { return out };
    for p in rd.flatten() {
        if !p.path().is_dir() {
            continue;
        }
        let Ok(rd2) = std::fs::read_dir(p.path()) else { continue };
        for k in rd2.flatten() {
            if !k.path().is_dir() {
                continue;
            }
            let Ok(rd3) = std::fs::read_dir(k.path()) else { continue };
            for f in rd3.flatten() {
                if let Ok(md) = f.metadata() {
                    if md.is_file() {
                        out.push((
                            f.path(),
                            k.file_name().to_string_lossy().to_string(),
                            f.file_name().to_string_lossy().to_string(),
                            md.len(),
                        ));
                    }
                }
            }
        }
    }
    out.sort();
    out
}

// ---- generation ---------------------------------------------------------------------------------

fn gen(seed: u64, run: u64, focus: &str, tier: Tier) -> Plan {
    let mut rng = Rng::stream(seed, run, "cache");
    let n_keys = rng.weighted(&[4, 3, 2]) + 1;
    let keys: Vec<KeySpec> = (0..n_keys)
        .map(|_| KeySpec {
            seed: rng.next_u64(),
            n_chunks: rng.range(2, 12) as u32,
            len_style: rng.below(3) as u32,
        })
        .collect();
    let vks: Vec<VKey> = keys.iter().enumerate().map(|(i, k)| vkey(k, i)).collect();
    let max_item: u64 = vks.iter().map(|v| v.item_len(0, v.lens.len() as u32)).max().unwrap();
    let total: u64 = vks.iter().map(|v| v.item_len(0, v.lens.len() as u32)).sum();
    let capacity = match rng.below(4) {
        0 => max_item,
        1 => max_item + rng.below(max_item + 1),
        2 => total + rng.below(total + 1),
        _ => 10 * total,
    };
    let damage_free = focus == "C13" || rng.chance(1, 3);
    let n_phases = match tier {
        Tier::Quick => rng.weighted(&[3, 4, 2]) + 1,
        Tier::Thorough => rng.weighted(&[2, 4, 3, 2]) + 1,
    };
    let mut phases = Vec::new();
    // a small pool of ranges makes identical and nested puts likely
    let mut pool: Vec<(usize, u32, u32)> = Vec::new();
    for _ in 0..rng.range(2, 6) {
        let k = rng.usize_below(n_keys);
        let n = keys[k].n_chunks;
        let a = rng.below(n as u64) as u32;
        let b = a + 1 + rng.below((n - a) as u64) as u32;
        pool.push((k, a, b));
    }
    for pi in 0..n_phases {
        let n_threads = rng.weighted(&[1, 4, 4, 2]) + 1;
        let herd = rng.chance(1, 3);
        let herd_range = *rng.pick(&pool);
        let mut threads = Vec::new();
        for _ in 0..n_threads {
            let n_ops = rng.range(1, if tier == Tier::Quick { 5 } else { 8 }) as usize;
            let mut ops = Vec::new();
            for oi in 0..n_ops {
                let (k, a, b) = if herd && oi == 0 {
                    herd_range
                } else if rng.chance(3, 4) {
                    *rng.pick(&pool)
                } else {
                    let k = rng.usize_below(n_keys);
                    let n = keys[k].n_chunks;
                    let a = rng.below(n as u64) as u32;
                    (k, a, a + 1 + rng.below((n - a) as u64) as u32)
                };
                let op = match rng.weighted(&[10, 8, if damage_free && focus != "C13" { 0 } else { 2 }, 1]) {
                    3 => Op::BadPut { key: k, a, b, kind: rng.below(5) as u32 },
                    0 => Op::Put { key: k, a, b },
                    1 => {
                        // often a sub-range of something put
                        let a2 = a + rng.below((b - a) as u64) as u32;
                        let b2 = a2 + 1 + rng.below((b - a2) as u64) as u32;
                        if rng.chance(1, 2) {
                            Op::Get { key: k, a: a2, b: b2 }
                        } else {
                            Op::Get { key: k, a, b }
                        }
                    },
                    _ => Op::DeleteFile { pick: rng.next_u64() },
                };
                ops.push(if herd && oi == 0 { Op::Put { key: k, a, b } } else { op });
            }
            threads.push(ops);
        }
        let mut damage_after = Vec::new();
        if !damage_free && pi + 1 < n_phases {
            for _ in 0..rng.weighted(&[2, 4, 2, 1]) {
                let d = match rng.below(9) {
                    0 => Damage::Flip { pick: rng.next_u64(), at: rng.next_u64(), bits: rng.range(1, 32) as u32 },
                    1 => Damage::Truncate { pick: rng.next_u64(), keep: rng.next_u64() },
                    2 => Damage::Extend { pick: rng.next_u64(), n: rng.range(1, 40) as u32 },
                    3 => Damage::Delete { pick: rng.next_u64() },
                    4 | 5 => Damage::Junk { level: rng.below(3) as u32, kind: rng.below(4) as u32, pick: rng.next_u64() },
                    _ => Damage::Rename { pick: rng.next_u64(), kind: rng.below(8) as u32 },
                };
                damage_after.push(d);
            }
        }
        if pi + 1 < n_phases && rng.chance(1, 4) {
            for _ in 0..rng.range(1, 3) {
                damage_after.push(Damage::Stray { level: rng.below(2) as u32, pick: rng.next_u64() });
            }
        }
        let capacity_pct = if focus == "C12" && pi > 0 && rng.chance(1, 4) { *rng.pick(&[10u32, 30, 50, 200]) } else { 100 };
        phases.push(Phase { threads, damage_after, capacity_pct });
    }
    Plan {
        keys,
        capacity,
        phases,
        schedule_seed: rng.next_u64(),
        strategy: rng.below(4) as u32,
    }
}

// ---- execution ----------------------------------------------------------------------------------

#[derive(Default)]
struct Shared {
    violations: Vec<(String, String, String)>,
    counters: BTreeMap<String, u64>,
    /// file path -> damage kind that produced / touched it
    provenance: HashMap<PathBuf, String>,
    in_op: Vec<bool>,
    overlap_seen: bool,
    sig: Vec<u64>,
    puts_done: u64,
}

fn bump(sh: &Mutex<Shared>, k: &str, n: u64) {
    *sh.lock().unwrap().counters.entry(k.to_string()).or_insert(0) += n;
}

/// The file still exists, the shipped code has to refuse it (its header does not describe exactly the chunks its name
/// claims, or its offsets are not increasing), and serving chunks [a, b) from it gives exactly `data`.
fn refusable_file_serves(pth: &Path, a: u32, b: u32, data: &[u8]) -> bool {
    let Some((pa, pb, _, _)) = pth.file_name().and_then(|n| parse_item_name(&n.to_string_lossy())) else { return false };
    let Ok(bytes) = std::fs::read(pth) else { return false };
    if bytes.len() < 4 || a < pa || b > pb || b <= a {
        return false;
    }
    let n = u32::from_le_bytes(bytes[0..4].try_into().unwrap()) as usize;
    let hdr = 4 * (n + 1);
    if bytes.len() < hdr {
        return false;
    }
    let offs: Vec<u32> = (0..n).map(|i| u32::from_le_bytes(bytes[4 + 4 * i..8 + 4 * i].try_into().unwrap())).collect();
    let refusable = n != (pb - pa + 1) as usize || offs.first() != Some(&0) || offs.windows(2).any(|w| w[0] >= w[1]);
    let (i0, i1) = ((a - pa) as usize, (b - pa) as usize);
    if !refusable || i1 >= n {
        return false;
    }
    let (s, e) = (offs[i0] as usize, offs[i1] as usize);
    s <= e && hdr + e <= bytes.len() && &bytes[hdr + s..hdr + e] == data
}

fn check_hit(
    sh: &Mutex<Shared>,
    cache: &DiskCache,
    root: &Path,
    vk: &VKey,
    a: u32,
    b: u32,
    got: &chunk_cache::CacheRange,
    damaged: bool,
    ctx: &str,
    all: &[VKey],
) {
    let (off, data) = vk.slice(a, b);
    let ok = got.data.as_ref() == &data[..] && got.offsets.as_ref() == &off[..] && got.range.start == a && got.range.end == b;
    if ok {
        return;
    }
    // Classify by what was actually served: bytes of which (key, chunk range) of the virtual xorbs?
    let mut site = "hit-serves-bytes-of-no-stored-range".to_string();
    'search: for (ki, v) in all.iter().enumerate() {
        let n = v.lens.len() as u32;
        for a2 in 0..n {
            for b2 in a2 + 1..=n {
                let (off2, d2) = v.slice(a2, b2);
                if got.data.as_ref() == &d2[..] && got.offsets.as_ref() == &off2[..] {
                    site = if v.key != vk.key {
                        "hit-serves-another-keys-chunks".to_string()
                    } else if b2 - a2 == b - a {
                        "hit-serves-shifted-chunk-range-of-same-width".to_string()
                    } else {
                        "hit-serves-chunk-range-of-other-width".to_string()
                    };
                    let _ = ki;
                    break 'search;
                }
            }
        }
    }
    // a hit served from a file produced by one of the damage kinds that the shipped code always refuses (header /
    // name mismatch, unordered offsets) is its own site, never one of the recorded findings
    {
        let kd = key_dir_name(&vk.key);
        let s = sh.lock().unwrap();
        let covers = |pth: &PathBuf| {
            pth.parent().and_then(|d| d.file_name()).map(|n| n.to_string_lossy() == kd.as_str()).unwrap_or(false)
                && pth.file_name().and_then(|n| parse_item_name(&n.to_string_lossy())).map(|(pa, pb, _, _)| pa <= a && b <= pb).unwrap_or(false)
        };
        // (only when no file of the kinds behind the recorded findings can explain the hit)
        let explained = s.provenance.iter().any(|(pth, label)| ["renamed-shifted-range-same-len-crc", "moved-to-other-key-dir"].contains(&label.as_str()) && covers(pth));
        let mut via: Vec<&String> = s
            .provenance
            .iter()
            .filter(|(pth, label)| {
                !explained
                    && ["renamed-narrower-shifted-range-same-len-crc", "rewritten-with-unordered-offsets"].contains(&label.as_str())
                    && refusable_file_serves(pth, a, b, got.data.as_ref())
                    && pth.parent().and_then(|d| d.file_name()).map(|n| n.to_string_lossy() == kd.as_str()).unwrap_or(false)
                    && pth.file_name().and_then(|n| parse_item_name(&n.to_string_lossy())).map(|(pa, pb, _, _)| pa <= a && b <= pb).unwrap_or(false)
            })
            .map(|(_, l)| l)
            .collect();
        via.sort();
        if let Some(l) = via.first() {
            site = format!("{site}:via-{l}");
        }
    }
    let _ = (cache, root);
    let clause = if damaged { "C12.b" } else { "C12.a" };
    let what = if got.data.as_ref() != &data[..] {
        "data"
    } else if got.offsets.as_ref() != &off[..] {
        "offsets"
    } else {
        "range"
    };
    sh.lock().unwrap().violations.push((
        clause.into(),
        format!("{site}"),
        format!("{ctx}: hit for chunks {a}..{b} returned wrong {what} ({} bytes, want {}; offsets {:?} want {:?})", got.data.len(), data.len(), &got.offsets[..got.offsets.len().min(6)], &off[..off.len().min(6)]),
    ));
}

fn apply_damage(d: &Damage, root: &Path, vks: &[VKey], sh: &Mutex<Shared>) {
    let files = list_files(root);
    let pickf = |pick: u64| -> Option<(PathBuf, String, String, u64)> {
        if files.is_empty() {
            None
        } else {
            Some(files[(pick % files.len() as u64) as usize].clone())
        }
    };
    let note = |p: &Path, kind: &str| {
        sh.lock().unwrap().provenance.insert(p.to_path_buf(), kind.to_string());
    };
    match d {
        Damage::Flip { pick, at, bits } => {
            if let Some((p, _, _, len)) = pickf(*pick) {
                if len > 0 {
                    if let Ok(mut b) = std::fs::read(&p) {
                        let bit0 = (*at % (len * 8)) as usize;
                        for i in 0..*bits as usize {
                            let bit = bit0 + i;
                            if bit / 8 < b.len() && (i == 0 || i + 1 == *bits as usize || mix(&[*at, i as u64]) % 2 == 0) {
                                b[bit / 8] ^= 1 << (bit % 8);
                            }
                        }
                        let _ = std::fs::write(&p, b);
                        note(&p, "bit-flip");
                        bump(sh, "fault:bit_flip_burst", 1);
                    }
                }
            }
        },
        Damage::Truncate { pick, keep } => {
            if let Some((p, _, _, len)) = pickf(*pick) {
                if let Ok(b) = std::fs::read(&p) {
                    let k = (*keep % len.max(1)) as usize;
                    let _ = std::fs::write(&p, &b[..k]);
                    note(&p, "truncated");
                    bump(sh, "fault:truncate", 1);
                }
            }
        },
        Damage::Extend { pick, n } => {
            if let Some((p, _, _, _)) = pickf(*pick) {
                if let Ok(mut b) = std::fs::read(&p) {
                    b.extend(std::iter::repeat(0xAB).take(*n as usize));
                    let _ = std::fs::write(&p, b);
                    note(&p, "extended");
                    bump(sh, "fault:extend", 1);
                }
            }
        },
        Damage::Delete { pick } => {
            if let Some((p, _, _, _)) = pickf(*pick) {
                let _ = std::fs::remove_file(&p);
                bump(sh, "fault:delete_while_closed", 1);
            }
        },
        Damage::Junk { level, kind, pick } => {
            // choose a directory at the requested level
            let dir = match level {
                0 => Some(root.to_path_buf()),
                1 => pickf(*pick).and_then(|f| f.0.parent().and_then(|p| p.parent()).map(|p| p.to_path_buf())),
                _ => pickf(*pick).and_then(|f| f.0.parent().map(|p| p.to_path_buf())),
            }
            .unwrap_or_else(|| root.to_path_buf());
            let _ = std::fs::create_dir_all(&dir);
            let names = ["junk.txt", "zz", "ab", "abcd", "YWJj", "....", "AAAAAAAAAAAAAAAAAAAAAAAAAAA=", "not base64!"];
            let name = match kind {
                3 => {
                    // looks well-formed: an item name with arbitrary fields, or a key-dir name of another key
                    if *level == 2 {
                        item_name((*pick % 5) as u32, (*pick % 5) as u32 + 1 + (*pick >> 8) as u32 % 4, 12 + *pick % 50, *pick as u32)
                    } else {
                        let mut h = [0u8; 32];
                        Rng::new(*pick).fill(&mut h);
                        b64_encode(&h)
                    }
                },
                2 => ["ab", "abcd", "YWJj", "QUJD"][(*pick % 4) as usize].to_string(),
                _ => names[(*pick % names.len() as u64) as usize].to_string(),
            };
            let p = dir.join(name);
            if *kind == 1 || (*kind == 2 && *level < 2) || (*kind == 3 && *level < 2) {
                let _ = std::fs::create_dir_all(&p);
                // sometimes put something inside
                if pick % 3 == 0 {
                    let _ = std::fs::write(p.join("x"), b"junk");
                }
                bump(sh, "fault:junk_dir", 1);
            } else if !p.exists() {
                let n = (*pick >> 16) % 60;
                let _ = std::fs::write(&p, vec![0x5Au8; n as usize]);
                note(&p, "planted-junk-file");
                bump(sh, "fault:junk_file", 1);
            }
        },
        Damage::Stray { level, pick } => {
            let dir = match level {
                0 => None,
                _ => pickf(*pick).and_then(|f| f.0.parent().and_then(|p| p.parent()).map(|p| p.to_path_buf())),
            }
            .unwrap_or_else(|| root.to_path_buf());
            let _ = std::fs::create_dir_all(&dir);
            let name = ["README.txt", ".DS_Store", "0", "zzzz.lock", "Thumbs.db"][(*pick >> 8) as usize % 5];
            let p = dir.join(name);
            if !p.exists() {
                let _ = std::fs::write(&p, vec![0x33u8; (*pick >> 16) as usize % 40]);
                bump(sh, "fault:stray_plain_file_beside_the_cache_directories", 1);
            }
        },
        Damage::Rename { pick, kind } => {
            if let Some((p, kd, name, _)) = pickf(*pick) {
                let dir = p.parent().unwrap().to_path_buf();
                let parsed = parse_item_name(&name);
                let target: Option<(PathBuf, &str)> = match (kind, parsed) {
                    (0, _) => Some((dir.join("renamed.bin"), "renamed-junk-name")),
                    (1, Some((a, b, l, c))) => Some((dir.join(item_name(a, b, l + 1 + pick % 7, c)), "renamed-other-len")),
                    (2, Some((a, b, l, c))) => Some((dir.join(item_name(a, b, l, c ^ (1 + (*pick as u32 % 1000)))), "renamed-other-crc")),
                    (3, Some((a, b, l, c))) => {
                        let sh_ = 1 + (*pick % 3) as u32;
                        Some((dir.join(item_name(a + sh_, b + sh_, l, c)), "renamed-shifted-range-same-len-crc"))
                    },
                    (4, Some((a, b, l, c))) => {
                        let nb = if b - a > 1 && pick % 2 == 0 { b - 1 } else { b + 1 };
                        Some((dir.join(item_name(a, nb, l, c)), "renamed-other-width-same-len-crc"))
                    },
                    (6, Some((a, b, l, c))) if b - a > 1 => {
                        // a narrower range that starts later: the header describes more chunks than the name claims
                        let nb = if b - a > 2 && pick % 2 == 0 { b - 1 } else { b };
                        Some((dir.join(item_name(a + 1, nb, l, c)), "renamed-narrower-shifted-range-same-len-crc"))
                    },
                    (7, Some((a, b, _l, _c))) => {
                        // rewritten so that name, length and checksum agree with the bytes, but the offsets in the
                        // header are out of order (two neighbours swapped)
                        match std::fs::read(&p) {
                            Ok(mut bytes) if bytes.len() >= 16 && u32::from_le_bytes(bytes[0..4].try_into().unwrap()) >= 3 => {
                                let (x, y) = (bytes[8..12].to_vec(), bytes[12..16].to_vec());
                                bytes[8..12].copy_from_slice(&y);
                                bytes[12..16].copy_from_slice(&x);
                                let t = dir.join(item_name(a, b, bytes.len() as u64, crate::engines::crash::crc32(&bytes)));
                                if std::fs::write(&p, &bytes).is_ok() {
                                    Some((t, "rewritten-with-unordered-offsets"))
                                } else {
                                    None
                                }
                            },
                            _ => None,
                        }
                    },
                    (5, Some(_)) => {
                        // move unchanged under another key's directory
                        let other = vks.iter().map(|v| key_dir_name(&v.key)).find(|n| *n != kd);
                        other.map(|o| {
                            let nd = root.join(&o[..2]).join(&o);
                            let _ = std::fs::create_dir_all(&nd);
                            (nd.join(&name), "moved-to-other-key-dir")
                        })
                    },
                    _ => None,
                };
                if let Some((t, k)) = target {
                    if std::fs::rename(&p, &t).is_ok() {
                        note(&t, k);
                        bump(sh, &format!("fault:{k}"), 1);
                    }
                }
            }
        },
    }
}

fn run_plan(p: &Plan, focus: &str, rep: &mut RunReport) {
    let dir = scratch_dir("c");
    let _guard = ScratchGuard(dir.clone());
    let root = dir.join("cache");
    let vks: Arc<Vec<VKey>> = Arc::new(p.keys.iter().enumerate().map(|(i, k)| vkey(k, i)).collect());
    let sh = Arc::new(Mutex::new(Shared::default()));
    let trace_on = std::env::var("XSIM_TRACE").is_ok();
    let mut damaged = false;
    let mut racing_delete = false;
    let mut total_picks = 0u64;
    let mut total_switches = 0u64;
    for (pi, phase) in p.phases.iter().enumerate() {
        // ---- (re-)open
        let cfg = CacheConfig {
            cache_directory: root.clone(),
            cache_size: (p.capacity * phase.capacity_pct as u64 / 100).max(1),
        };
        if phase.capacity_pct != 100 {
            // accounting clauses (C13) are stated for re-opens with the same capacity only
            damaged = true;
            rep.count("fault:reopen_with_other_capacity", 1);
        }
        let _ = take_last_panic();
        let init = std::panic::catch_unwind(|| DiskCache::initialize(&cfg));
        let cache = match init {
            Err(_) => {
                let pm = take_last_panic().unwrap_or_default();
                rep.violate("C12.c", &format!("initialize-panic:{}", panic_site(&pm)), format!("phase {pi}: DiskCache::initialize panicked: {pm}"));
                return;
            },
            Ok(Err(e)) => {
                if !damaged {
                    rep.violate("C12.c", "initialize-error-undamaged", format!("phase {pi}: initialize failed on an undamaged directory: {e}"));
                }
                rep.count("probe:initialize_error_after_damage", 1);
                return;
            },
            Ok(Ok(c)) => Arc::new(c),
        };
        // C13.e: re-open with the same capacity sees exactly what is on disk
        if pi > 0 && !damaged {
            let files = list_files(&root);
            if let Ok((n, tb, items)) = cache.verif_snapshot() {
                let dir_bytes: u64 = files.iter().map(|f| f.3).sum();
                if n != files.len() || tb != dir_bytes || items.len() != files.len() {
                    rep.violate("C13.e", "reopen-totals", format!("phase {pi}: after re-open num_items {n} / total_bytes {tb} / tracked {} but the directory holds {} files / {dir_bytes} bytes", items.len(), files.len()));
                }
            }
        }
        if phase.threads.iter().flatten().any(|o| matches!(o, Op::DeleteFile { .. })) {
            racing_delete = true;
        }

        // ---- simulated threads
        let n = phase.threads.len();
        let sched = Sched::new(n, mix(&[p.schedule_seed, pi as u64]), p.strategy, trace_on);
        sh.lock().unwrap().in_op = vec![false; n];
        let accounting_on = !damaged;
        let obs_cache = cache.clone();
        let obs_sh = sh.clone();
        let observer: Arc<crate::sched::PointObserver> = Arc::new(move |_tid, label| {
            // C13.a at every schedule point (cheap snapshot; nobody else is running and points are outside the lock)
            if accounting_on {
                if let Ok((ni, tb, items)) = obs_cache.verif_snapshot() {
                    let sum: u64 = items.iter().map(|i| i.2).sum();
                    if ni != items.len() || tb != sum {
                        obs_sh.lock().unwrap().violations.push((
                            "C13.a".into(),
                            "counters-vs-tracked".into(),
                            format!("at {label}: num_items {ni}, tracked {}; total_bytes {tb}, sum of tracked lengths {sum}", items.len()),
                        ));
                    }
                }
            }
            let mut s = obs_sh.lock().unwrap();
            if s.in_op.iter().filter(|&&b| b).count() >= 2 {
                s.overlap_seen = true;
            }
        });
        let mut hs = Vec::new();
        for (tid, ops) in phase.threads.iter().cloned().enumerate() {
            let sched = sched.clone();
            let cache = cache.clone();
            let vks = vks.clone();
            let sh = sh.clone();
            let observer = observer.clone();
            let root = root.clone();
            let capacity = p.capacity;
            hs.push(std::thread::spawn(move || {
                install_quiet_panic_hook_once();
                utils::verif::install(Some(Arc::new(ThreadHooks {
                    sched: sched.clone(),
                    tid,
                    observer: Some(observer),
                })));
                sched.enter(tid);
                for (oi, op) in ops.iter().enumerate() {
                    sh.lock().unwrap().in_op[tid] = true;
                    let ctx = format!("phase {pi} thread {tid} op {oi} {op:?}");
                    let _ = take_last_panic();
                    let r = std::panic::catch_unwind(std::panic::AssertUnwindSafe(|| match op {
                        Op::Put { key, a, b } => {
                            let vk = &vks[*key];
                            let (off, data) = vk.slice(*a, *b);
                            let r = cache.put(&vk.key, &ChunkRange { start: *a, end: *b }, &off, &data);
                            match r {
                                Ok(()) => {
                                    bump(&sh, "puts_ok", 1);
                                    sh.lock().unwrap().puts_done += 1;
                                    if accounting_on {
                                        if let Ok(tb) = cache.total_bytes() {
                                            if tb > capacity {
                                                sh.lock().unwrap().violations.push(("C13.b".into(), "over-capacity".into(), format!("{ctx}: total_bytes {tb} > capacity {capacity} after the insertion")));
                                            }
                                        }
                                    }
                                },
                                Err(e) => {
                                    bump(&sh, "puts_err", 1);
                                    if accounting_on {
                                        sh.lock().unwrap().violations.push(("C12.a".into(), "put-error-undamaged".into(), format!("{ctx}: put failed on an undamaged cache: {e}")));
                                    }
                                },
                            }
                        },
                        Op::Get { key, a, b } => {
                            let vk = &vks[*key];
                            match cache.get(&vk.key, &ChunkRange { start: *a, end: *b }) {
                                Ok(Some(got)) => {
                                    bump(&sh, "get_hits", 1);
                                    check_hit(&sh, &cache, &root, vk, *a, *b, &got, !accounting_on, &ctx, &vks);
                                },
                                Ok(None) => bump(&sh, "get_misses", 1),
                                Err(e) => {
                                    bump(&sh, "get_errors", 1);
                                    if accounting_on {
                                        sh.lock().unwrap().violations.push(("C12.a".into(), "get-error-undamaged".into(), format!("{ctx}: get failed on an undamaged cache: {e}")));
                                    }
                                },
                            }
                        },
                        Op::BadPut { key, a, b, kind } => {
                            let vk = &vks[*key];
                            let (off, mut data) = vk.slice(*a, *b);
                            let (mut ra, mut rb) = (*a, *b);
                            match kind % 5 {
                                0 => data.extend_from_slice(&[0xA5; 64]),
                                1 => rb += 1,
                                2 => {
                                    if rb - ra >= 2 {
                                        rb -= 1
                                    } else {
                                        ra = rb
                                    }
                                },
                                3 => rb = ra,
                                _ => {
                                    data.pop();
                                },
                            }
                            match cache.put(&vk.key, &ChunkRange { start: ra, end: rb }, &off, &data) {
                                Ok(()) => bump(&sh, "probe:inconsistent_put_accepted", 1),
                                Err(_) => bump(&sh, "probe:inconsistent_put_refused", 1),
                            }
                        },
                        Op::DeleteFile { pick } => {
                            // an external cleaner removing cache item files (never in-flight temp files)
                            let files: Vec<_> = list_files(&root).into_iter().filter(|f| parse_item_name(&f.2).is_some()).collect();
                            if !files.is_empty() {
                                let f = &files[(*pick % files.len() as u64) as usize];
                                let _ = std::fs::remove_file(&f.0);
                                bump(&sh, "fault:racing_delete_while_open", 1);
                            }
                        },
                    }));
                    if r.is_err() {
                        let pm = take_last_panic().unwrap_or_default();
                        sh.lock().unwrap().violations.push(("C12.c".into(), format!("op-panic:{}", panic_site(&pm)), format!("{ctx}: panicked: {pm}")));
                    }
                    sh.lock().unwrap().in_op[tid] = false;
                    // a point between operations so that threads interleave at op granularity too
                    utils::verif::point("cache:op_done");
                }
                utils::verif::install(None);
                sched.finish(tid);
            }));
        }
        for h in hs {
            let _ = h.join();
        }
        let (picks, switches, overflow) = sched.stats();
        total_picks += picks;
        total_switches += switches;
        if overflow {
            rep.violate("C12.c", "livelock", format!("phase {pi}: more than 200000 schedule points without finishing"));
        }
        if trace_on {
            for (t, l) in sched.take_trace() {
                eprintln!("[trace] phase {pi} pick thread {t} at {l}");
            }
        }
        sh.lock().unwrap().sig.push(mix(&[picks, switches]));

        // ---- quiescence: C13.a/c/d
        if !damaged {
            quiescence_checks(&cache, &root, &vks, &sh, pi, rep);
        }
        drop(cache);

        // ---- damage while closed
        for d in &phase.damage_after {
            apply_damage(d, &root, &vks, &sh);
            if !matches!(d, Damage::Stray { .. }) {
                damaged = true;
            }
        }
    }
    let s = sh.lock().unwrap();
    for (c, site, d) in &s.violations {
        rep.violate(c, site, d.clone());
    }
    for (k, v) in &s.counters {
        rep.count(k, *v);
    }
    rep.count("schedule_points", total_picks);
    rep.count("thread_switches", total_switches);
    rep.count("probe:two_ops_in_flight", s.overlap_seen as u64);
    rep.count("probe:damaged_history", damaged as u64);
    rep.count("probe:racing_delete_history", racing_delete as u64);
    let damage_hit = s.counters.keys().any(|k| k.starts_with("fault:") && !k.contains("racing"));
    rep.nontrivial = match focus {
        "C13" => s.overlap_seen,
        _ => s.overlap_seen || damage_hit,
    };
    let mut words = s.sig.clone();
    words.push(p.phases.len() as u64);
    words.push(s.counters.get("get_hits").copied().unwrap_or(0));
    words.push(s.counters.get("puts_ok").copied().unwrap_or(0));
    words.push(total_switches);
    rep.signature = mix(&words);
}

fn quiescence_checks(cache: &Arc<DiskCache>, root: &Path, vks: &[VKey], sh: &Mutex<Shared>, pi: usize, rep: &mut RunReport) {
    let Ok((n, tb, items)) = cache.verif_snapshot() else { return };
    let sum: u64 = items.iter().map(|i| i.2).sum();
    if n != items.len() || tb != sum {
        rep.violate("C13.a", "counters-vs-tracked", format!("phase {pi} quiescent: num_items {n}, tracked {}; total_bytes {tb}, sum of tracked lengths {sum}", items.len()));
    }
    if cache.num_items().ok() != Some(n) || cache.total_bytes().ok() != Some(tb) {
        rep.violate("C13.a", "reported-counters", "num_items()/total_bytes() disagree with the snapshot".to_string());
    }
    // C13.c: every file on disk belongs to a tracked entry of its key, with the tracked length
    let files = list_files(root);
    for (path, kd, name, size) in &files {
        let Some((kh, kp)) = parse_key_dir(kd) else {
            rep.violate("C13.c", "file-under-unparsable-key-dir", format!("phase {pi}: {path:?}"));
            continue;
        };
        let tracked = items.iter().any(|(k, _, len, _, fname)| h_of(&k.hash) == kh && k.prefix == kp && fname == name && len == size);
        if !tracked {
            rep.violate("C13.c", "untracked-file", format!("phase {pi} quiescent: file {name} ({size} bytes) under key dir {kd} is not a tracked entry"));
        }
    }
    // C13.d: read every entry back; entries whose file is gone must leave the counters unless shadowed
    for _pass in 0..3 {
        let Ok((_, _, cur)) = cache.verif_snapshot() else { break };
        for (k, r, _, _, _) in &cur {
            let Some(vk) = vks.iter().find(|v| v.key == *k) else { continue };
            match cache.get(k, r) {
                Ok(Some(got)) => check_hit(sh, cache, root, vk, r.start, r.end, &got, false, &format!("phase {pi} read-back"), vks),
                Ok(None) => {},
                Err(e) => rep.violate("C12.a", "get-error-undamaged", format!("phase {pi} read-back of {r:?}: {e}")),
            }
        }
    }
    let Ok((n2, tb2, after)) = cache.verif_snapshot() else { return };
    let files = list_files(root);
    let mut with_file_bytes = 0u64;
    let mut with_file_n = 0usize;
    for (idx, (k, r, len, _, fname)) in after.iter().enumerate() {
        let kd = key_dir_name(k);
        let present = files.iter().any(|f| f.1 == kd && f.2 == *fname && f.3 == *len);
        if present {
            with_file_bytes += len;
            with_file_n += 1;
        } else {
            // a surviving entry without file is legal only if an earlier entry of the key shadows its range
            let shadowed = after[..idx].iter().any(|(k2, r2, _, _, _)| k2 == k && r2.start <= r.start && r.end <= r2.end);
            if !shadowed {
                rep.violate("C13.d", "fileless-entry-survived-read-back", format!("phase {pi}: entry {r:?} has no file, is not shadowed, yet is still tracked after being read back"));
            }
            rep.count("probe:shadowed_fileless_entry", shadowed as u64);
        }
    }
    let sum2: u64 = after.iter().map(|i| i.2).sum();
    if n2 != after.len() || tb2 != sum2 {
        rep.violate("C13.a", "counters-vs-tracked", format!("phase {pi} after read-back: num_items {n2}, tracked {}; total_bytes {tb2}, sum {sum2}", after.len()));
    }
    let dir_bytes: u64 = files.iter().map(|f| f.3).sum();
    if with_file_n != files.len() || with_file_bytes != dir_bytes {
        rep.violate("C13.d", "totals-vs-directory", format!("phase {pi} after read-back: tracked entries with a file: {with_file_n} / {with_file_bytes} bytes; directory: {} files / {dir_bytes} bytes", files.len()));
    }
}

fn install_quiet_panic_hook_once() {
    // the hook is process-wide and already installed by the worker; nothing to do per thread
}

impl Engine for CacheEngine {
    fn name(&self) -> &'static str {
        "cache"
    }
    fn properties(&self) -> &'static [&'static str] {
        &["C12", "C13"]
    }
    fn budget(&self, _focus: &str, tier: Tier) -> Budget {
        match tier {
            Tier::Quick => Budget { runs: 60_000, chunk: 1_000, max_wall_s: 120 },
            Tier::Thorough => Budget { runs: 1_500_000, chunk: 5_000, max_wall_s: 900 },
        }
    }
    fn gen_plan(&self, seed: u64, run: u64, focus: &str, tier: Tier) -> Value {
        serde_json::to_value(gen(seed, run, focus, tier)).unwrap()
    }
    fn execute(&self, plan: &Value, focus: &str) -> RunReport {
        let p: Plan = serde_json::from_value(plan.clone()).expect("cache plan");
        let mut rep = RunReport::default();
        run_plan(&p, focus, &mut rep);
        rep.sample = Some(json!({
            "keys": p.keys.iter().map(|k| k.n_chunks).collect::<Vec<_>>(), "capacity": p.capacity, "strategy": p.strategy,
            "phases": p.phases.iter().map(|ph| json!({"threads": ph.threads.iter().map(|t| t.len()).collect::<Vec<_>>(), "damage": ph.damage_after.len()})).collect::<Vec<_>>(),
            "first_ops": p.phases.first().map(|ph| ph.threads.iter().map(|t| format!("{:?}", t.first())).collect::<Vec<_>>()),
        }));
        rep
    }
    fn shrink(&self, plan: &Value) -> Vec<Value> {
        let p: Plan = serde_json::from_value(plan.clone()).expect("cache plan");
        let mut out: Vec<Plan> = Vec::new();
        if p.phases.len() > 1 {
            let mut q = p.clone();
            q.phases.pop();
            // damage of the new last phase is never followed by a re-open: keep it (harmless)
            out.push(q);
            let mut q = p.clone();
            q.phases.remove(0);
            out.push(q);
        }
        for (pi, ph) in p.phases.iter().enumerate() {
            for ti in 0..ph.threads.len() {
                if ph.threads.len() > 1 {
                    let mut q = p.clone();
                    q.phases[pi].threads.remove(ti);
                    out.push(q);
                }
                for oi in 0..ph.threads[ti].len() {
                    if ph.threads[ti].len() > 1 || ph.threads.len() > 1 {
                        let mut q = p.clone();
                        q.phases[pi].threads[ti].remove(oi);
                        if q.phases[pi].threads[ti].is_empty() {
                            q.phases[pi].threads.remove(ti);
                        }
                        if !q.phases[pi].threads.is_empty() {
                            out.push(q);
                        }
                    }
                }
            }
            for di in 0..ph.damage_after.len() {
                let mut q = p.clone();
                q.phases[pi].damage_after.remove(di);
                out.push(q);
            }
        }
        if p.strategy != 2 {
            let mut q = p.clone();
            q.strategy = 2;
            out.push(q);
        }
        if p.keys.len() > 1 {
            // drop the last key if no op uses it
            let last = p.keys.len() - 1;
            let used = p.phases.iter().flat_map(|ph| ph.threads.iter().flatten()).any(|o| match o {
                Op::Put { key, .. } | Op::Get { key, .. } | Op::BadPut { key, .. } => *key == last,
                _ => false,
            });
            if !used {
                let mut q = p.clone();
                q.keys.pop();
                out.push(q);
            }
        }
        out.into_iter().map(|q| serde_json::to_value(q).unwrap()).collect()
    }
    fn rule(&self, focus: &str) -> String {
        let nt = if focus == "C13" {
            "at least two threads were between entry and exit of put/get at the same schedule point"
        } else {
            "at least two threads were inside put/get at the same schedule point, or on-disk damage was applied to the directory"
        };
        format!("Each run: 1-3 keys with a virtual xorb each, 1-4 phases of 1-4 simulated threads issuing seeded put/get (overlapping, nested, identical ranges; thundering herds; now and then a put with inconsistent arguments built from the true content — trailing bytes, range wider or narrower than the offsets, empty range, data one byte short — which may be refused or stored while every later hit must still be a true slice) and racing file deletions against the real DiskCache under a seeded one-thread-at-a-time schedule (4 strategies) with capacities from 'one item' to 'everything fits'; between phases the cache is closed, seeded damage is applied (bit-flip bursts, truncation, extension, deletion, junk files/dirs at every level, eight kinds of renames and rewrites — among them a narrower range that starts later and a header with two offsets swapped under a name whose length and checksum match) or plain stray files are left beside the cache directories (not damage: the accounting clauses stay in force) and the directory is re-opened. Non-trivial: {nt}. Distinct: hash of per-phase (schedule points, thread switches), hit and put counts.")
    }
    fn real_vs_stub(&self) -> Value {
        json!({"real": ["chunk_cache::DiskCache (initialize/get/put/eviction/self-healing)", "file_utils::SafeFileCreator", "the file system (tmpfs)"], "simulated": ["thread scheduling at lock/file-system-effect granularity (H4 points)", "eviction victim draw", "on-disk damage while closed", "racing deletions"]})
    }
    fn assumptions(&self, _focus: &str) -> Vec<String> {
        vec![
            "Interleavings are explored at the granularity of the H4 points (before every state-lock acquisition and every file-system effect), which is the granularity the property states.".into(),
            "Accounting clauses (C13) are evaluated only on histories without on-disk damage; racing deletions are allowed there.".into(),
        ]
    }
}
