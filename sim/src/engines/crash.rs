//! `crash` engine (C19): crash-point enumeration. The operation under test (shard flush, consolidation, keyed export,
//! LocalClient::put, DiskCache::put) runs once with hooks that copy the directories at every named point between two
//! file-system effects (H4/H7) — the crash state under the stated model: completed system calls persist, data still in
//! user-space buffers is lost. Every snapshot (plus variants with truncated temp files) is re-opened by fresh
//! instances. In addition the kernel's inotify event sequence of the directories is checked against the protocol
//! "a final name only ever appears by rename and is never written afterwards", which does not depend on where the
//! points sit.

use std::collections::{BTreeMap, HashMap};
use std::io::Cursor;
use std::path::{Path, PathBuf};
use std::sync::{Arc, Mutex};
use std::time::Duration;

use cas_types::ChunkRange;
use chunk_cache::{CacheConfig, ChunkCache, DiskCache};
use mdb_shard::shard_file_reconstructor::FileReconstructor;
use mdb_shard::{MDBShardFile, ShardFileManager};
use serde::{Deserialize, Serialize};
use serde_json::{json, Value};

use crate::core::*;
use crate::engines::cache::{item_name, key_dir_name, list_files, parse_item_name, vkey, KeySpec, VKey};
use crate::engines::session::{scratch_dir, ScratchGuard};
use crate::prng::{mix, Rng};
use crate::refmodel::*;
use crate::shardmodel::*;

pub struct CrashEngine;

#[derive(Clone, Debug, Serialize, Deserialize, PartialEq)]
pub struct Plan {
    /// 0 shard flush, 1 consolidation, 2 keyed export, 3 LocalClient::put, 4 DiskCache::put
    pub kind: u32,
    pub specs: Vec<ShardSpec>,
    /// number of prior steps that build the history before the operation under test
    pub prior: u32,
    pub threshold: u64,
    pub seed: u64,
    pub keys: Vec<KeySpec>,
    pub capacity_style: u32,
    pub export_flags: u8,
}

// ---- inotify -----------------------------------------------------------------------------------

struct Watcher {
    fd: i32,
    wds: HashMap<i32, PathBuf>,
    pub events: Vec<(PathBuf, String, u32)>,
    /// rename cookie of each event (parallel to `events`)
    pub cookies: Vec<u32>,
}

const IN_MODIFY: u32 = 0x2;
const IN_ATTRIB: u32 = 0x4;
const IN_MOVED_FROM: u32 = 0x40;
const IN_MOVED_TO: u32 = 0x80;
const IN_CREATE: u32 = 0x100;
const IN_DELETE: u32 = 0x200;
const IN_ISDIR: u32 = 0x4000_0000;
const IN_Q_OVERFLOW: u32 = 0x4000;

impl Watcher {
    fn new() -> Option<Self> {
        let fd = unsafe { libc::inotify_init1(libc::IN_NONBLOCK | libc::IN_CLOEXEC) };
        if fd < 0 {
            return None;
        }
        Some(Watcher { fd, wds: HashMap::new(), events: Vec::new(), cookies: Vec::new() })
    }
    fn watch(&mut self, dir: &Path) {
        if self.wds.values().any(|p| p == dir) {
            return;
        }
        let c = std::ffi::CString::new(dir.to_string_lossy().as_bytes()).unwrap();
        let wd = unsafe { libc::inotify_add_watch(self.fd, c.as_ptr(), IN_MODIFY | IN_ATTRIB | IN_MOVED_FROM | IN_MOVED_TO | IN_CREATE | IN_DELETE) };
        if wd >= 0 {
            self.wds.insert(wd, dir.to_path_buf());
        }
    }
    fn watch_tree(&mut self, root: &Path) {
        self.watch(root);
        if let Ok(rd) = std::fs::read_dir(root) {
            for e in rd.flatten() {
                if e.path().is_dir() {
                    self.watch_tree(&e.path());
                }
            }
        }
    }
    fn drain(&mut self) {
        let mut buf = [0u8; 16384];
        loop {
            let n = unsafe { libc::read(self.fd, buf.as_mut_ptr() as *mut libc::c_void, buf.len()) };
            if n <= 0 {
                break;
            }
            let mut off = 0usize;
            while off + 16 <= n as usize {
                let wd = i32::from_ne_bytes(buf[off..off + 4].try_into().unwrap());
                let mask = u32::from_ne_bytes(buf[off + 4..off + 8].try_into().unwrap());
                let cookie = u32::from_ne_bytes(buf[off + 8..off + 12].try_into().unwrap());
                let len = u32::from_ne_bytes(buf[off + 12..off + 16].try_into().unwrap()) as usize;
                let name_bytes = &buf[off + 16..off + 16 + len];
                let name = String::from_utf8_lossy(name_bytes.split(|b| *b == 0).next().unwrap_or(&[])).to_string();
                let dir = self.wds.get(&wd).cloned().unwrap_or_default();
                if mask & IN_CREATE != 0 && mask & IN_ISDIR != 0 {
                    let p = dir.join(&name);
                    self.watch_tree(&p);
                }
                self.events.push((dir, name, mask));
                self.cookies.push(cookie);
                off += 16 + len;
            }
        }
    }
}

impl Drop for Watcher {
    fn drop(&mut self) {
        unsafe {
            libc::close(self.fd);
        }
    }
}

/// A *final* name is one that the restart-time readers take for a complete object: `<64 hex>.mdb` (shard directory
/// loader), `<prefix>.<64 hex>` (local xorb store), a well-formed cache item name (cache scan). Everything else in
/// these directories is a temporary or foreign file that they ignore or clean up — whatever it is called.
fn is_final_name(name: &str) -> bool {
    let hex64 = |s: &str| s.len() == 64 && s.bytes().all(|b| b.is_ascii_hexdigit());
    if let Some(stem) = name.strip_suffix(".mdb") {
        if hex64(stem) {
            return true;
        }
    }
    if let Some((prefix, h)) = name.rsplit_once('.') {
        if !prefix.is_empty() && !prefix.contains('.') && hex64(h) {
            return true;
        }
    }
    parse_item_name(name).is_some()
}

fn is_temp_name(name: &str) -> bool {
    !is_final_name(name)
}

/// Protocol rule on the kernel's event sequence: final (non-temp) file names appear only through rename and are
/// never written afterwards. LMDB's files and directories are not part of the rule.
fn check_event_protocol(rep: &mut RunReport, events: &[(PathBuf, String, u32)], scenario: &str) {
    if std::env::var("XSIM_TRACE").is_ok() {
        for (d, n, m) in events {
            eprintln!("[trace] inotify {:?}/{n} mask={m:#x}", d.file_name().unwrap_or_default());
        }
    }
    for (dir, name, mask) in events {
        if mask & IN_Q_OVERFLOW != 0 {
            rep.count("probe:inotify_overflow", 1);
            continue;
        }
        if mask & IN_ISDIR != 0 || name.is_empty() || is_temp_name(name) {
            continue;
        }
        if dir.to_string_lossy().contains("global_dedup_lookup") || name.ends_with(".mdb-lock") {
            continue;
        }
        if mask & IN_CREATE != 0 {
            rep.violate("C19.a", &format!("{scenario}:final-name-created-directly"), format!("a file was created directly under the final name {name} (it exists incomplete until written)"));
        }
        if mask & IN_MODIFY != 0 {
            rep.violate("C19.a", &format!("{scenario}:final-name-written"), format!("the file {name} was written while it already carried its final name"));
        }
    }
    rep.count("fs_events_checked", events.len() as u64);
}

// ---- snapshots ---------------------------------------------------------------------------------

fn copy_tree(src: &Path, dst: &Path) {
    let _ = std::fs::create_dir_all(dst);
    if let Ok(rd) = std::fs::read_dir(src) {
        for e in rd.flatten() {
            let p = e.path();
            let t = dst.join(e.file_name());
            if p.is_dir() {
                copy_tree(&p, &t);
            } else {
                let _ = std::fs::copy(&p, &t);
            }
        }
    }
}

struct Snap {
    label: String,
    dir: PathBuf,
    /// number of file-system events the watcher had seen when the copy was taken
    ev_len: usize,
}

struct Snapper {
    src: Vec<PathBuf>,
    base: PathBuf,
    snaps: Mutex<Vec<Snap>>,
    armed: std::sync::atomic::AtomicBool,
    watcher: Mutex<Option<Watcher>>,
    rng: Mutex<Rng>,
}

impl Snapper {
    fn take(&self, label: &str) {
        if !self.armed.load(std::sync::atomic::Ordering::SeqCst) {
            return;
        }
        let mut ev_len = 0;
        if let Some(w) = self.watcher.lock().unwrap().as_mut() {
            w.drain();
            ev_len = w.events.len();
        }
        let mut s = self.snaps.lock().unwrap();
        let n = s.len();
        if n >= 400 {
            return;
        }
        let d = self.base.join(format!("snap{n}"));
        for (i, src) in self.src.iter().enumerate() {
            copy_tree(src, &d.join(format!("d{i}")));
        }
        s.push(Snap { label: label.to_string(), dir: d, ev_len });
    }
}

impl utils::verif::Hooks for Snapper {
    fn point(&self, label: &'static str) {
        self.take(label);
    }
    fn rand_usize(&self) -> Option<usize> {
        Some(self.rng.lock().unwrap().next_u64() as usize)
    }
    fn now_secs(&self) -> Option<u64> {
        Some(1_750_000_000)
    }
    fn stamp_mtime(&self, path: &Path) {
        // strictly increasing simulated mtimes: the order in which consolidation sees shards must not depend on the
        // kernel's coarse timestamps
        static T: std::sync::atomic::AtomicU64 = std::sync::atomic::AtomicU64::new(1_750_000_000_000);
        let t = T.fetch_add(1000, std::sync::atomic::Ordering::SeqCst);
        // setting an mtime makes the kernel report IN_MODIFY for the file: events caused by the harness's own
        // stamping are discarded so that the protocol rule only sees the code under test
        let mut w = self.watcher.lock().unwrap();
        let keep = w.as_mut().map(|w| {
            w.drain();
            w.events.len()
        });
        if let Ok(f) = std::fs::OpenOptions::new().write(true).open(path) {
            let _ = f.set_modified(std::time::UNIX_EPOCH + Duration::from_millis(t));
        }
        if let (Some(w), Some(n)) = (w.as_mut(), keep) {
            w.drain();
            w.events.truncate(n);
            w.cookies.truncate(n);
        }
    }
}

// ---- crash states derived from the kernel's effect log --------------------------------------------

#[derive(Clone, PartialEq, Eq, PartialOrd, Ord)]
enum VSrc {
    /// content as found in hook snapshot number i
    Snap(usize),
    Empty,
}

fn walk_rel(base: &Path, rel: &Path, files: &mut Vec<PathBuf>, dirs: &mut Vec<PathBuf>) {
    if let Ok(rd) = std::fs::read_dir(base.join(rel)) {
        let mut es: Vec<_> = rd.flatten().collect();
        es.sort_by_key(|e| e.file_name());
        for e in es {
            let r = rel.join(e.file_name());
            if e.path().is_dir() {
                dirs.push(r.clone());
                walk_rel(base, &r, files, dirs);
            } else {
                files.push(r);
            }
        }
    }
}

/// The named crash points sit where the shipped code has its file-system effects; a change that adds or reorders
/// effects creates states between them. This derives one more crash state per namespace-changing event the kernel
/// reported (create, delete, rename), independent of where the points sit: the directory as it was at "op:start" with
/// the events up to that one applied. A file that arrived by rename takes its content from the first later snapshot
/// that holds it (final names are never written in place — the protocol rule checks that separately); files outside
/// the watched directories must not have changed during the operation, otherwise no state is derived.
fn virtual_crash_states(rep: &mut RunReport, snapper: &Snapper, snaps: &[Snap], base: &Path) -> Vec<Snap> {
    let mut out = Vec::new();
    let (events, cookies, watched): (Vec<(PathBuf, String, u32)>, Vec<u32>, Vec<PathBuf>) = match snapper.watcher.lock().unwrap().as_ref() {
        Some(w) => (w.events.clone(), w.cookies.clone(), w.wds.values().cloned().collect()),
        None => return out,
    };
    if snaps.len() < 2 || events.iter().any(|e| e.2 & IN_Q_OVERFLOW != 0) {
        return out;
    }
    let (first, last) = (&snaps[0], &snaps[snaps.len() - 1]);
    // absolute directory -> path relative to a snapshot root ("d<i>/...")
    let rel_of = |abs: &Path| -> Option<PathBuf> {
        for (i, src) in snapper.src.iter().enumerate() {
            if let Ok(r) = abs.strip_prefix(src) {
                return Some(PathBuf::from(format!("d{i}")).join(r));
            }
        }
        None
    };
    let watched_rel: Vec<PathBuf> = watched.iter().filter_map(|w| rel_of(w)).collect();
    let in_watched = |rel: &Path| rel.parent().map(|p| watched_rel.iter().any(|w| w == p)).unwrap_or(false);
    let (mut f0, mut d0, mut f1, mut d1) = (Vec::new(), Vec::new(), Vec::new(), Vec::new());
    walk_rel(&first.dir, Path::new(""), &mut f0, &mut d0);
    walk_rel(&last.dir, Path::new(""), &mut f1, &mut d1);
    // nothing outside the watched directories may have changed (its timing relative to the events is unknown)
    let unwatched = |v: &Vec<PathBuf>| -> Vec<PathBuf> { v.iter().filter(|r| !in_watched(r)).cloned().collect() };
    if unwatched(&f0) != unwatched(&f1) || unwatched(&f0).iter().any(|r| std::fs::read(first.dir.join(r)).ok() != std::fs::read(last.dir.join(r)).ok()) {
        rep.count("probe:effect_log_states_skipped_unwatched_change", 1);
        return out;
    }
    let mut files: BTreeMap<PathBuf, VSrc> = f0.iter().map(|r| (r.clone(), VSrc::Snap(0))).collect();
    let mut dirs: std::collections::BTreeSet<PathBuf> = d0.into_iter().collect();
    let mut seen: std::collections::BTreeSet<u64> = std::collections::BTreeSet::new();
    let kind = |m: u32| -> &'static str {
        if m & IN_CREATE != 0 {
            "create"
        } else if m & IN_DELETE != 0 {
            "delete"
        } else if m & IN_MOVED_FROM != 0 {
            "rename-from"
        } else if m & IN_MOVED_TO != 0 {
            "rename-to"
        } else {
            "other"
        }
    };
    // events before the first copy are already part of it
    let mut k = first.ev_len;
    while k < events.len() {
        let (dir, name, mask) = &events[k];
        let this = k;
        k += 1;
        let Some(rd) = rel_of(dir) else { continue };
        if name.is_empty() {
            continue;
        }
        let path = rd.join(name);
        let mut changed = false;
        let mut unknown = false;
        if mask & IN_ISDIR != 0 {
            if mask & (IN_CREATE | IN_MOVED_TO) != 0 {
                dirs.insert(path);
            } else if mask & (IN_DELETE | IN_MOVED_FROM) != 0 {
                dirs.remove(&path);
                files.retain(|f, _| !f.starts_with(&path));
            }
            continue;
        }
        // where the content of a file that arrives at event index j (0-based) comes from
        let content_after = |path: &Path, j: usize| -> Option<VSrc> {
            for (si, s) in snaps.iter().enumerate() {
                if s.ev_len > j {
                    // the name must not have been re-created or replaced between the event and the snapshot
                    let replaced = events[j + 1..s.ev_len.min(events.len())].iter().any(|(d, n, m)| m & (IN_CREATE | IN_MOVED_TO) != 0 && rel_of(d).map(|r| r.join(n)).as_deref() == Some(path));
                    if !replaced && s.dir.join(path).is_file() {
                        return Some(VSrc::Snap(si));
                    }
                    if replaced {
                        return None;
                    }
                }
            }
            None
        };
        if mask & IN_CREATE != 0 {
            files.insert(path.clone(), VSrc::Empty);
            changed = true;
        } else if mask & IN_DELETE != 0 {
            changed = files.remove(&path).is_some();
        } else if mask & IN_MOVED_FROM != 0 {
            files.remove(&path);
            changed = true;
            // a rename is one effect: apply its second half before deriving a state
            if k < events.len() && events[k].2 & IN_MOVED_TO != 0 && cookies.get(k) == cookies.get(this) {
                let (d2, n2, _) = &events[k];
                if let Some(r2) = rel_of(d2) {
                    let p2 = r2.join(n2);
                    match content_after(&p2, k) {
                        Some(src) => {
                            files.insert(p2, src);
                        },
                        None => unknown = true,
                    }
                }
                k += 1;
            }
        } else if mask & IN_MOVED_TO != 0 {
            match content_after(&path, this) {
                Some(src) => {
                    files.insert(path.clone(), src);
                },
                None => unknown = true,
            }
            changed = true;
        }
        if !changed {
            continue;
        }
        if unknown {
            // the file was gone again before any copy was taken: its content is not known, no state derived from here on
            rep.count("probe:effect_log_states_unknown_content", 1);
            break;
        }
        let sig = {
            let mut w: Vec<u64> = Vec::new();
            for (f, src) in &files {
                w.push(crate::prng::label_hash(&f.to_string_lossy()));
                w.push(match src {
                    VSrc::Snap(i) => std::fs::metadata(snaps[*i].dir.join(f)).map(|m| m.len()).unwrap_or(0) + 1,
                    VSrc::Empty => 0,
                });
            }
            mix(&w)
        };
        if !seen.insert(sig) || out.len() >= 60 {
            continue;
        }
        let vd = base.join(format!("virt{this}"));
        for (i, _) in snapper.src.iter().enumerate() {
            let _ = std::fs::create_dir_all(vd.join(format!("d{i}")));
        }
        for d in &dirs {
            let _ = std::fs::create_dir_all(vd.join(d));
        }
        for (f, src) in &files {
            if let Some(parent) = vd.join(f).parent() {
                let _ = std::fs::create_dir_all(parent);
            }
            match src {
                VSrc::Snap(i) => {
                    let _ = std::fs::copy(snaps[*i].dir.join(f), vd.join(f));
                },
                VSrc::Empty => {
                    let _ = std::fs::write(vd.join(f), b"");
                },
            }
        }
        out.push(Snap { label: format!("fs event #{this} ({} {name}) [state derived from the effect log]", kind(*mask)), dir: vd, ev_len: this + 1 });
    }
    rep.count("effect_log_crash_states", out.len() as u64);
    out
}

/// Variants of a snapshot in which a leftover temp file is cut to a prefix (states inside a multi-write flush).
fn temp_prefix_variants(snap: &Path, base: &Path, tag: usize) -> Vec<PathBuf> {
    let mut temps: Vec<PathBuf> = Vec::new();
    fn walk(d: &Path, out: &mut Vec<PathBuf>) {
        if let Ok(rd) = std::fs::read_dir(d) {
            for e in rd.flatten() {
                let p = e.path();
                if p.is_dir() {
                    walk(&p, out);
                } else if is_temp_name(&e.file_name().to_string_lossy()) && !p.to_string_lossy().contains("global_dedup") {
                    out.push(p);
                }
            }
        }
    }
    walk(snap, &mut temps);
    let mut out = Vec::new();
    for (k, t) in temps.iter().enumerate().take(2) {
        let len = std::fs::metadata(t).map(|m| m.len()).unwrap_or(0);
        for (j, cut) in [0u64, len / 2].iter().enumerate() {
            if *cut >= len && len > 0 {
                continue;
            }
            let v = base.join(format!("var{tag}-{k}-{j}"));
            copy_tree(snap, &v);
            let rel = t.strip_prefix(snap).unwrap();
            if let Ok(f) = std::fs::OpenOptions::new().write(true).open(v.join(rel)) {
                let _ = f.set_len(*cut);
            }
            out.push(v);
        }
    }
    out
}

pub(crate) fn crc32(data: &[u8]) -> u32 {
    let mut crc = 0xFFFF_FFFFu32;
    for &b in data {
        crc ^= b as u32;
        for _ in 0..8 {
            crc = if crc & 1 != 0 { (crc >> 1) ^ 0xEDB8_8320 } else { crc >> 1 };
        }
    }
    !crc
}

fn helper_rt() -> &'static tokio::runtime::Runtime {
    static RT: std::sync::OnceLock<tokio::runtime::Runtime> = std::sync::OnceLock::new();
    RT.get_or_init(|| tokio::runtime::Builder::new_multi_thread().worker_threads(1).enable_all().build().unwrap())
}

// ---- scenario: shard directory ------------------------------------------------------------------

fn shard_dir_files_ok(rep: &mut RunReport, dir: &Path, ctx: &str, scenario: &str) {
    if let Ok(rd) = std::fs::read_dir(dir) {
        for e in rd.flatten() {
            let name = e.file_name().to_string_lossy().to_string();
            if is_temp_name(&name) || e.path().is_dir() {
                continue;
            }
            let bytes = std::fs::read(e.path()).unwrap_or_default();
            let Some(hex) = name.strip_suffix(".mdb") else {
                rep.violate("C19.a", &format!("{scenario}:foreign-final-name"), format!("{ctx}: unexpected file {name} in the shard directory"));
                continue;
            };
            if ref_from_hex(hex) != Some(ref_chunk_hash(&bytes)) {
                rep.violate("C19.a", &format!("{scenario}:shard-name-vs-content"), format!("{ctx}: shard file {name} ({} bytes) is not named by the hash of its content", bytes.len()));
            } else if let Err(er) = ref_shard_parse(&bytes) {
                rep.violate("C19.a", &format!("{scenario}:shard-incomplete"), format!("{ctx}: shard file {name} does not parse: {er}"));
            }
        }
    }
}

async fn shard_restart_check(rep: &mut RunReport, dir: &Path, before: &ModelShard, ctx: &str, scenario: &str) {
    shard_dir_files_ok(rep, dir, ctx, scenario);
    let mgr = match ShardFileManager::new_in_session_directory(dir).await {
        Ok(m) => m,
        Err(e) => {
            rep.violate("C19.c", &format!("{scenario}:reopen-error"), format!("{ctx}: re-open failed: {e}"));
            return;
        },
    };
    if let Ok(list) = mgr.registered_shard_list().await {
        for s in list {
            let n = s.path.file_name().map(|n| n.to_string_lossy().to_string()).unwrap_or_default();
            if is_temp_name(&n) {
                rep.violate("C19.c", &format!("{scenario}:temp-file-served"), format!("{ctx}: the re-opened manager registered temp file {n}"));
            }
        }
    }
    for (h, f) in &before.files {
        match mgr.get_file_reconstruction_info(&m_of(h)).await {
            Ok(Some((fi, _))) => {
                if from_file_info(&fi).segments != f.segments {
                    rep.violate("C19.b", &format!("{scenario}:file-record-changed"), format!("{ctx}: file {} differs after restart", ref_hex(h)));
                }
            },
            Ok(None) => rep.violate("C19.b", &format!("{scenario}:file-record-lost"), format!("{ctx}: file {} was retrievable before the interrupted operation, not after restart", ref_hex(h))),
            Err(e) => rep.violate("C19.c", &format!("{scenario}:lookup-error"), format!("{ctx}: {e}")),
        }
    }
    // a dedup lookup may legally miss when another chunk shares the truncated 64-bit prefix (C05 allows misses), so
    // only xorbs whose first chunk has a unique prefix are demanded back
    let mut prefix_owners: HashMap<u64, std::collections::BTreeSet<H>> = HashMap::new();
    let now = dir_model(dir);
    for x in before.xorbs.values().chain(now.xorbs.values()) {
        for c in &x.chunks {
            prefix_owners.entry(trunc(&c.0)).or_default().insert(c.0);
        }
    }
    for (h, x) in &before.xorbs {
        if let Some(c) = x.chunks.first() {
            if prefix_owners.get(&trunc(&c.0)).map(|s| s.len()).unwrap_or(0) != 1 {
                continue;
            }
            match mgr.chunk_hash_dedup_query(&[m_of(&c.0)]).await {
                Ok(Some(_)) => {},
                Ok(None) => rep.violate("C19.b", &format!("{scenario}:xorb-record-lost"), format!("{ctx}: first chunk of xorb {} no longer deduplicates after restart", ref_hex(h))),
                Err(e) => rep.violate("C19.c", &format!("{scenario}:lookup-error"), format!("{ctx}: {e}")),
            }
        }
    }
    rep.count("restarts_checked", 1);
}

fn dir_model(dir: &Path) -> ModelShard {
    let mut m = ModelShard::default();
    if let Ok(rd) = std::fs::read_dir(dir) {
        for e in rd.flatten() {
            let name = e.file_name().to_string_lossy().to_string();
            if name.ends_with(".mdb") && !is_temp_name(&name) {
                if let Ok(p) = ref_shard_parse(&std::fs::read(e.path()).unwrap_or_default()) {
                    if p.footer.hmac_key == ZERO_H {
                        for f in p.files {
                            m.files.entry(f.hash).or_insert(f);
                        }
                        for x in p.xorbs {
                            m.xorbs.entry(x.hash).or_insert(x);
                        }
                    }
                }
            }
        }
    }
    m
}

fn run_shard_scenario(p: &Plan, rep: &mut RunReport, root: &Path) {
    let scenario = match p.kind {
        0 => "shard-flush",
        1 => "consolidate",
        _ => "keyed-export",
    };
    let models = gen_models(&p.specs);
    let d0 = root.join("shards");
    let d1 = root.join("exports");
    std::fs::create_dir_all(&d0).unwrap();
    std::fs::create_dir_all(&d1).unwrap();
    let snapper = Arc::new(Snapper {
        src: vec![d0.clone(), d1.clone()],
        base: root.join("snaps"),
        snaps: Mutex::new(Vec::new()),
        armed: false.into(),
        watcher: Mutex::new(Watcher::new()),
        rng: Mutex::new(Rng::new(p.seed)),
    });
    let prev = utils::verif::install(Some(snapper.clone()));
    let rt = tokio::runtime::Builder::new_current_thread().enable_all().build().unwrap();
    let before: ModelShard = rt.block_on(async {
        // history
        let mgr = ShardFileManager::new_in_session_directory(&d0).await.expect("manager");
        for i in 0..p.prior as usize {
            let m = &models[i % models.len()];
            for x in m.xorbs.values() {
                let _ = mgr.add_cas_block(to_cas_info(x)).await;
            }
            for f in m.files.values() {
                let _ = mgr.add_file_reconstruction_info(to_file_info(f)).await;
            }
            let _ = mgr.flush().await;
            if p.kind == 2 && i % 2 == 0 {
                // earlier exports in the target directory
                for (path, _, _) in list_mdb(&d0) {
                    if let Ok(sf) = MDBShardFile::load_from_file(&path) {
                        let _ = sf.export_as_keyed_shard(&d1, m_of(&[7u8; 32]), Duration::from_secs(1000), true, true, true);
                    }
                }
            }
        }
        let before = dir_model(&d0);
        if let Some(w) = snapper.watcher.lock().unwrap().as_mut() {
            w.watch(&d0);
            w.watch(&d1);
            w.drain();
            w.events.clear();
        }
        snapper.armed.store(true, std::sync::atomic::Ordering::SeqCst);
        snapper.take("op:start");
        match p.kind {
            0 => {
                let m = &models[p.prior as usize % models.len()];
                for x in m.xorbs.values() {
                    let _ = mgr.add_cas_block(to_cas_info(x)).await;
                }
                for f in m.files.values() {
                    let _ = mgr.add_file_reconstruction_info(to_file_info(f)).await;
                }
                if let Err(e) = mgr.flush().await {
                    rep.violate("C19.c", "shard-flush:op-error", format!("flush failed: {e}"));
                }
            },
            1 => {
                drop(mgr);
                if let Err(e) = mdb_shard::session_directory::consolidate_shards_in_directory(&d0, p.threshold) {
                    rep.violate("C19.c", "consolidate:op-error", format!("consolidation failed: {e}"));
                }
            },
            _ => {
                for (path, _, _) in list_mdb(&d0).into_iter().take(2) {
                    if let Ok(sf) = MDBShardFile::load_from_file(&path) {
                        let _ = sf.export_as_keyed_shard(&d1, m_of(&[9u8; 32]), Duration::from_secs(50), p.export_flags & 1 != 0, p.export_flags & 2 != 0, p.export_flags & 4 != 0);
                    }
                }
            },
        }
        snapper.take("op:done");
        snapper.armed.store(false, std::sync::atomic::Ordering::SeqCst);
        before
    });
    utils::verif::install(prev);
    // events
    if let Some(w) = snapper.watcher.lock().unwrap().as_mut() {
        w.drain();
        check_event_protocol(rep, &w.events, scenario);
        rep.count("probe:inotify_available", 1);
    }
    // restarts
    let mut snaps = std::mem::take(&mut *snapper.snaps.lock().unwrap());
    let n_hook_snaps = snaps.len();
    let virt = virtual_crash_states(rep, &snapper, &snaps, &root.join("snaps"));
    snaps.extend(virt);
    let mut labels = Vec::new();
    for (i, s) in snaps.iter().enumerate() {
        labels.push(s.label.clone());
        let mut dirs = vec![s.dir.clone()];
        dirs.extend(temp_prefix_variants(&s.dir, &root.join("snaps"), i));
        for (vi, d) in dirs.iter().enumerate() {
            let ctx = format!("crash at {} (snapshot {i}, variant {vi})", s.label);
            rt.block_on(shard_restart_check(rep, &d.join("d0"), &before, &ctx, scenario));
            shard_dir_files_ok(rep, &d.join("d1"), &ctx, scenario);
            let has_temp = std::fs::read_dir(d.join("d0")).map(|rd| rd.flatten().any(|e| is_temp_name(&e.file_name().to_string_lossy()))).unwrap_or(false)
                || std::fs::read_dir(d.join("d1")).map(|rd| rd.flatten().any(|e| is_temp_name(&e.file_name().to_string_lossy()))).unwrap_or(false);
            rep.count("probe:snapshot_with_temp_file", has_temp as u64);
        }
    }
    let n_deleted_mid = labels.iter().filter(|l| l.contains("consolidate:deleted")).count();
    rep.count("probe:snapshot_inside_partial_deletion", (n_deleted_mid > 1) as u64);
    rep.count("crash_points", n_hook_snaps as u64);
    rep.nontrivial = n_hook_snaps > 2;
    rep.signature = mix(&[p.kind as u64, p.seed, n_hook_snaps as u64, before.files.len() as u64, before.xorbs.len() as u64]);
}

fn list_mdb(dir: &Path) -> Vec<(PathBuf, String, u64)> {
    let mut v = Vec::new();
    if let Ok(rd) = std::fs::read_dir(dir) {
        for e in rd.flatten() {
            let n = e.file_name().to_string_lossy().to_string();
            if n.ends_with(".mdb") && !is_temp_name(&n) {
                v.push((e.path(), n, e.metadata().map(|m| m.len()).unwrap_or(0)));
            }
        }
    }
    v.sort();
    v
}

// ---- scenario: LocalClient::put ------------------------------------------------------------------

fn run_local_put(p: &Plan, rep: &mut RunReport, root: &Path) {
    let scenario = "local-put";
    let store = root.join("store");
    let mk = |seed: u64| -> crate::engines::xorb::Built {
        crate::engines::xorb::build(&crate::engines::xorb::XorbSpec { seed, n_chunks: 1 + (seed % 5) as u32, len_style: (seed % 3) as u32, content_mix: 3, scheme: 0 })
    };
    let open = |dir: PathBuf| -> Option<cas_client::LocalClient> {
        helper_rt().block_on(async move { tokio::spawn(async move { cas_client::LocalClient::new(dir, None) }).await }).ok()?.ok()
    };
    let Some(client) = open(store.clone()) else {
        rep.violate("C19.c", "local-put:open", "LocalClient::new failed on a fresh directory".into());
        return;
    };
    let rt = tokio::runtime::Builder::new_current_thread().enable_all().build().unwrap();
    use cas_client::UploadClient;
    let mut prior: Vec<crate::engines::xorb::Built> = Vec::new();
    for i in 0..p.prior {
        let b = mk(mix(&[p.seed, i as u64]));
        let _ = rt.block_on(client.put("default", &m_of(&b.hash), b.data.clone(), b.boundaries.clone()));
        prior.push(b);
    }
    let xd = store.join("xorbs");
    let snapper = Arc::new(Snapper {
        src: vec![store.clone()],
        base: root.join("snaps"),
        snaps: Mutex::new(Vec::new()),
        armed: false.into(),
        watcher: Mutex::new(Watcher::new()),
        rng: Mutex::new(Rng::new(p.seed)),
    });
    if let Some(w) = snapper.watcher.lock().unwrap().as_mut() {
        w.watch(&xd);
    }
    let s2 = snapper.clone();
    let fprev = file_utils::verif::install(Some(Arc::new(move |l: &'static str| s2.take(l))));
    let prev = utils::verif::install(Some(snapper.clone()));
    snapper.armed.store(true, std::sync::atomic::Ordering::SeqCst);
    snapper.take("op:start");
    let newx = mk(mix(&[p.seed, 0xBEEF]));
    if let Err(e) = rt.block_on(client.put("default", &m_of(&newx.hash), newx.data.clone(), newx.boundaries.clone())) {
        rep.violate("C19.c", "local-put:op-error", format!("put failed: {e}"));
    }
    snapper.take("op:done");
    snapper.armed.store(false, std::sync::atomic::Ordering::SeqCst);
    utils::verif::install(prev);
    file_utils::verif::install(fprev);
    if let Some(w) = snapper.watcher.lock().unwrap().as_mut() {
        w.drain();
        check_event_protocol(rep, &w.events, scenario);
    }
    drop(client);
    let mut snaps = std::mem::take(&mut *snapper.snaps.lock().unwrap());
    let n_hook_snaps = snaps.len();
    let virt = virtual_crash_states(rep, &snapper, &snaps, &root.join("snaps"));
    snaps.extend(virt);
    for (i, s) in snaps.iter().enumerate() {
        let mut dirs = vec![s.dir.clone()];
        dirs.extend(temp_prefix_variants(&s.dir, &root.join("snaps"), i));
        for (vi, d) in dirs.iter().enumerate() {
            let ctx = format!("crash at {} (snapshot {i}, variant {vi})", s.label);
            let sd = d.join("d0");
            // every file under a final name validates for that name
            if let Ok(rd) = std::fs::read_dir(sd.join("xorbs")) {
                for e in rd.flatten() {
                    let name = e.file_name().to_string_lossy().to_string();
                    if is_temp_name(&name) {
                        rep.count("probe:snapshot_with_temp_file", 1);
                        continue;
                    }
                    let bytes = std::fs::read(e.path()).unwrap_or_default();
                    let ok = name.strip_prefix("default.").and_then(ref_from_hex).map(|h| matches!(cas_object::CasObject::validate_cas_object(&mut Cursor::new(&bytes), &m_of(&h)), Ok(Some(_)))).unwrap_or(false);
                    if !ok {
                        rep.violate("C19.a", "local-put:xorb-incomplete", format!("{ctx}: {name} ({} bytes) does not validate for its name", bytes.len()));
                    }
                }
            }
            match open(sd.clone()) {
                None => rep.violate("C19.c", "local-put:reopen-error", format!("{ctx}: LocalClient::new failed on the crash state")),
                Some(c) => {
                    for b in &prior {
                        match c.get(&m_of(&b.hash)) {
                            Ok(d) if d == b.data => {},
                            other => rep.violate("C19.b", "local-put:xorb-lost", format!("{ctx}: xorb stored before the interrupted put reads back {:?}", other.map(|d| d.len()).map_err(|e| e.to_string()))),
                        }
                    }
                    match rt.block_on(c.exists("default", &m_of(&newx.hash))) {
                        Ok(false) => {},
                        Ok(true) => {
                            if c.get(&m_of(&newx.hash)).ok().as_deref() != Some(&newx.data[..]) {
                                rep.violate("C19.a", "local-put:new-xorb-partial", format!("{ctx}: the new xorb exists but does not read back"));
                            }
                        },
                        Err(e) => rep.violate("C19.a", "local-put:new-xorb-broken", format!("{ctx}: exists() on the new xorb fails: {e}")),
                    }
                    // what the store itself lists as its entries (its own notion of a final name, whatever the file
                    // is called) is complete: every listed entry reads back as one of the xorbs that were put
                    match c.get_all_entries() {
                        Ok(keys) => {
                            for k in keys {
                                let known = prior.iter().chain(std::iter::once(&newx)).find(|b| m_of(&b.hash) == k.hash);
                                let ok = match (known, c.get(&k.hash)) {
                                    (Some(b), Ok(d)) => d == b.data && k.prefix == "default",
                                    _ => false,
                                };
                                if !ok {
                                    rep.violate("C19.a", "local-put:listed-entry-incomplete", format!("{ctx}: the store lists entry {}.{} which does not read back as a stored xorb", k.prefix, k.hash.hex()));
                                }
                            }
                            rep.count("probe:store_listing_checked_after_restart", 1);
                        },
                        Err(e) => rep.violate("C19.c", "local-put:listing-error", format!("{ctx}: get_all_entries failed on the crash state: {e}")),
                    }
                    rep.count("restarts_checked", 1);
                    drop(c);
                },
            }
            crate::engines::session::release_lmdb(&sd);
        }
    }
    crate::engines::session::release_lmdb(&store);
    rep.count("crash_points", n_hook_snaps as u64);
    rep.nontrivial = n_hook_snaps > 2;
    rep.signature = mix(&[3, p.seed, n_hook_snaps as u64, p.prior as u64]);
}

// ---- scenario: DiskCache::put --------------------------------------------------------------------

fn run_cache_put(p: &Plan, rep: &mut RunReport, root: &Path) {
    let scenario = "cache-put";
    let croot = root.join("cache");
    let vks: Vec<VKey> = p.keys.iter().enumerate().map(|(i, k)| vkey(k, i)).collect();
    let max_item: u64 = vks.iter().map(|v| v.item_len(0, v.lens.len() as u32)).max().unwrap_or(64);
    let total: u64 = vks.iter().map(|v| v.item_len(0, v.lens.len() as u32)).sum();
    let capacity = match p.capacity_style % 3 {
        0 => max_item,
        1 => max_item + total / 2,
        _ => 10 * total,
    };
    let cfg = CacheConfig { cache_directory: croot.clone(), cache_size: capacity };
    let snapper = Arc::new(Snapper {
        src: vec![croot.clone()],
        base: root.join("snaps"),
        snaps: Mutex::new(Vec::new()),
        armed: false.into(),
        watcher: Mutex::new(Watcher::new()),
        rng: Mutex::new(Rng::new(p.seed)),
    });
    let s2 = snapper.clone();
    let fprev = file_utils::verif::install(Some(Arc::new(move |l: &'static str| s2.take(l))));
    let prev = utils::verif::install(Some(snapper.clone()));
    let Ok(cache) = DiskCache::initialize(&cfg) else {
        utils::verif::install(prev);
        file_utils::verif::install(fprev);
        return;
    };
    let mut rng = Rng::new(p.seed ^ 0xCAC4E);
    let pick = |rng: &mut Rng| -> (usize, u32, u32) {
        let k = rng.usize_below(vks.len());
        let n = vks[k].lens.len() as u32;
        let a = rng.below(n as u64) as u32;
        (k, a, a + 1 + rng.below((n - a) as u64) as u32)
    };
    for _ in 0..p.prior {
        let (k, a, b) = pick(&mut rng);
        let (off, data) = vks[k].slice(a, b);
        let _ = cache.put(&vks[k].key, &ChunkRange { start: a, end: b }, &off, &data);
    }
    // one history in two: the cache is closed and re-opened before the operation, so that the items it meets were loaded
    // by the start-up scan (not yet verified) rather than put by this instance
    let cache = if p.seed % 2 == 0 {
        drop(cache);
        match DiskCache::initialize(&cfg) {
            Ok(c) => {
                rep.count("probe:cache_reopened_before_the_interrupted_put", 1);
                c
            },
            Err(_) => {
                utils::verif::install(prev);
                file_utils::verif::install(fprev);
                return;
            },
        }
    } else {
        cache
    };
    // make sure every key directory exists and is watched before the operation
    for v in &vks {
        let kd = key_dir_name(&v.key);
        let _ = std::fs::create_dir_all(croot.join(&kd[..2]).join(&kd));
    }
    if let Some(w) = snapper.watcher.lock().unwrap().as_mut() {
        w.watch_tree(&croot);
    }
    let before: Vec<(usize, u32, u32)> = match cache.verif_snapshot() {
        Ok((_, _, items)) => items
            .iter()
            .filter_map(|(k, r, _, _, _)| vks.iter().position(|v| v.key == *k).map(|i| (i, r.start, r.end)))
            .collect(),
        Err(_) => Vec::new(),
    };
    snapper.armed.store(true, std::sync::atomic::Ordering::SeqCst);
    snapper.take("op:start");
    let (k, a, b) = pick(&mut rng);
    let (off, data) = vks[k].slice(a, b);
    if let Err(e) = cache.put(&vks[k].key, &ChunkRange { start: a, end: b }, &off, &data) {
        rep.violate("C19.c", "cache-put:op-error", format!("put failed: {e}"));
    }
    snapper.take("op:done");
    snapper.armed.store(false, std::sync::atomic::Ordering::SeqCst);
    // what the uninterrupted operation itself removed (eviction / subsumption) may be missing after a crash as well
    let after: Vec<(usize, u32, u32)> = match cache.verif_snapshot() {
        Ok((_, _, items)) => items
            .iter()
            .filter_map(|(k, r, _, _, _)| vks.iter().position(|v| v.key == *k).map(|i| (i, r.start, r.end)))
            .collect(),
        Err(_) => Vec::new(),
    };
    utils::verif::install(prev);
    file_utils::verif::install(fprev);
    if let Some(w) = snapper.watcher.lock().unwrap().as_mut() {
        w.drain();
        check_event_protocol(rep, &w.events, scenario);
    }
    // a range that was served before the operation and is served after its completion (by the same item or by the
    // new item that supersedes it) must be served at every stop point in between
    let served_after: Vec<bool> = before
        .iter()
        .map(|(ki, ra, rb)| matches!(cache.get(&vks[*ki].key, &ChunkRange { start: *ra, end: *rb }), Ok(Some(_))))
        .collect();
    drop(cache);
    let mut snaps = std::mem::take(&mut *snapper.snaps.lock().unwrap());
    let n_hook_snaps = snaps.len();
    let virt = virtual_crash_states(rep, &snapper, &snaps, &root.join("snaps"));
    snaps.extend(virt);
    for (i, s) in snaps.iter().enumerate() {
        let mut dirs = vec![s.dir.clone()];
        dirs.extend(temp_prefix_variants(&s.dir, &root.join("snaps"), i));
        for (vi, d) in dirs.iter().enumerate() {
            let ctx = format!("crash at {} (snapshot {i}, variant {vi})", s.label);
            let cd = d.join("d0");
            // initialize stops loading once it has seen twice the capacity: beyond that, items may go untracked
            let dir_bytes: u64 = list_files(&cd).iter().filter(|(_, _, name, _)| parse_item_name(name).is_some()).map(|(_, _, _, size)| *size).sum();
            let load_capped = dir_bytes >= 2 * capacity;
            for (path, _kd, name, size) in list_files(&cd) {
                if is_temp_name(&name) {
                    rep.count("probe:snapshot_with_temp_file", 1);
                    continue;
                }
                match parse_item_name(&name) {
                    Some((sa, sb, len, crc)) => {
                        let bytes = std::fs::read(&path).unwrap_or_default();
                        if len != size || crc32(&bytes) != crc || item_name(sa, sb, len, crc) != name {
                            rep.violate("C19.a", "cache-put:item-vs-name", format!("{ctx}: cache file {name}: size {size} / crc {:#x} do not match the name (len {len}, crc {crc:#x})", crc32(&bytes)));
                        }
                    },
                    None => rep.violate("C19.a", "cache-put:foreign-final-name", format!("{ctx}: unexpected file {name} in a key directory")),
                }
            }
            let _ = take_last_panic();
            let cfg2 = CacheConfig { cache_directory: cd.clone(), cache_size: capacity };
            match std::panic::catch_unwind(|| DiskCache::initialize(&cfg2)) {
                Err(_) => rep.violate("C19.c", "cache-put:reopen-panic", format!("{ctx}: initialize panicked: {:?}", take_last_panic())),
                Ok(Err(e)) => rep.violate("C19.c", "cache-put:reopen-error", format!("{ctx}: initialize failed: {e}")),
                Ok(Ok(c2)) => {
                    for (bi, (ki, ra, rb)) in before.iter().enumerate() {
                        let legit_loss = !after.contains(&(*ki, *ra, *rb));
                        if legit_loss && served_after[bi] {
                            rep.count("probe:superseded_range_checked_at_crash_point", 1);
                        }
                        match c2.get(&vks[*ki].key, &ChunkRange { start: *ra, end: *rb }) {
                            Ok(Some(got)) => {
                                let (o, dd) = vks[*ki].slice(*ra, *rb);
                                if got.data.as_ref() != &dd[..] || got.offsets.as_ref() != &o[..] {
                                    rep.violate("C19.b", "cache-put:item-wrong-after-restart", format!("{ctx}: item {ra}..{rb} reads back wrong data"));
                                }
                            },
                            Ok(None) => {
                                if legit_loss && served_after[bi] && !load_capped {
                                    rep.violate("C19.b", "cache-put:range-lost", format!("{ctx}: range {ra}..{rb} of key {ki} was served before the interrupted put and is served after its completion (by the item that supersedes it), but is a miss after restart"));
                                }
                                if !legit_loss {
                                    rep.violate("C19.b", "cache-put:item-lost", format!("{ctx}: item {ra}..{rb} of key {ki} was readable before the interrupted put and survives its completion, but is gone after restart"));
                                }
                            },
                            Err(e) => rep.violate("C19.c", "cache-put:get-error", format!("{ctx}: {e}")),
                        }
                    }
                    rep.count("restarts_checked", 1);
                },
            }
        }
    }
    rep.count("crash_points", n_hook_snaps as u64);
    rep.nontrivial = n_hook_snaps > 2;
    rep.signature = mix(&[4, p.seed, n_hook_snaps as u64, before.len() as u64]);
}

fn gen(seed: u64, run: u64, _tier: Tier) -> Plan {
    let mut rng = Rng::stream(seed, run, "crash");
    let kind = rng.weighted(&[3, 4, 2, 3, 4]) as u32;
    let n = rng.range(2, 4);
    let mut specs = Vec::new();
    for i in 0..n {
        let mut s = ShardSpec {
            seed: rng.next_u64(),
            n_files: rng.range(0, 6) as u32,
            n_xorbs: rng.range(1, 5) as u32,
            max_chunks: rng.range(1, 12) as u32,
            hash_style: rng.below(3) as u32,
            flags_mode: rng.below(5) as u32,
            dup_chunks: *rng.pick(&[0u32, 4]),
            overlap_first: None,
            zero_byte_only: false,
            offsets_style: 0,
        };
        if i > 0 && rng.chance(1, 3) {
            s.overlap_first = Some((rng.next_u64(), 8));
            if rng.chance(1, 2) {
                // nothing of its own: merging it with the first model reproduces a shard that already exists
                s.n_files = 0;
                s.n_xorbs = 0;
            }
        }
        specs.push(s);
    }
    Plan {
        kind,
        specs,
        prior: rng.range(0, 5) as u32,
        threshold: *rng.pick(&[0u64, 1500, 4000, 20_000, 64 << 20]),
        seed: rng.next_u64(),
        keys: (0..rng.range(1, 2)).map(|_| KeySpec { seed: rng.next_u64(), n_chunks: rng.range(2, 8) as u32, len_style: rng.below(3) as u32 }).collect(),
        capacity_style: rng.below(3) as u32,
        export_flags: rng.below(8) as u8,
    }
}

impl Engine for CrashEngine {
    fn name(&self) -> &'static str {
        "crash"
    }
    fn properties(&self) -> &'static [&'static str] {
        &["C19"]
    }
    fn level(&self, _focus: &str) -> &'static str {
        "fault_enumeration"
    }
    fn budget(&self, _focus: &str, tier: Tier) -> Budget {
        match tier {
            Tier::Quick => Budget { runs: 4_000, chunk: 100, max_wall_s: 150 },
            Tier::Thorough => Budget { runs: 80_000, chunk: 100, max_wall_s: 900 },
        }
    }
    fn gen_plan(&self, seed: u64, run: u64, _focus: &str, tier: Tier) -> Value {
        serde_json::to_value(gen(seed, run, tier)).unwrap()
    }
    fn execute(&self, plan: &Value, _focus: &str) -> RunReport {
        let p: Plan = serde_json::from_value(plan.clone()).expect("crash plan");
        let mut rep = RunReport::default();
        let root = scratch_dir("k");
        let _g = ScratchGuard(root.clone());
        match p.kind {
            0..=2 => run_shard_scenario(&p, &mut rep, &root),
            3 => run_local_put(&p, &mut rep, &root),
            _ => run_cache_put(&p, &mut rep, &root),
        }
        let name = ["shard-flush", "consolidate", "keyed-export", "local-put", "cache-put"][p.kind as usize % 5];
        rep.count(&format!("scenario:{name}"), 1);
        rep.sample = Some(json!({"scenario": name, "prior_steps": p.prior, "threshold": p.threshold, "crash_points": rep.counters.get("crash_points")}));
        rep
    }
    fn shrink(&self, plan: &Value) -> Vec<Value> {
        let p: Plan = serde_json::from_value(plan.clone()).expect("crash plan");
        let mut out = Vec::new();
        if p.prior > 0 {
            let mut q = p.clone();
            q.prior -= 1;
            out.push(q);
        }
        if p.specs.len() > 1 {
            let mut q = p.clone();
            q.specs.pop();
            out.push(q);
        }
        for (i, s) in p.specs.iter().enumerate() {
            if s.n_files > 0 {
                let mut q = p.clone();
                q.specs[i].n_files -= 1;
                out.push(q);
            }
            if s.n_xorbs > 1 {
                let mut q = p.clone();
                q.specs[i].n_xorbs -= 1;
                out.push(q);
            }
        }
        out.into_iter().map(|q| serde_json::to_value(q).unwrap()).collect()
    }
    fn rule(&self, _focus: &str) -> String {
        "Each run: one scenario (shard flush / consolidation / keyed export / LocalClient::put / DiskCache::put) after a seeded prior history of 0-5 steps; the operation under test runs once while every named crash point (H4/H7) triggers a copy of the directories; every snapshot, and variants with leftover temp files cut to a prefix, is re-opened by a fresh manager / LocalClient / DiskCache and checked (final names complete and consistent, earlier records still retrievable, re-open succeeds, temp files ignored); the inotify event sequence of the directories is checked against 'final names appear only by rename and are never written afterwards', and one more crash state is derived per namespace-changing event of that sequence (create / delete / rename applied to the copy taken at the start of the operation), so that states between effects which no named point separates are re-opened and checked as well. A range served by the chunk cache before a put and after its completion must be served at every stop point in between. Enumeration over crash points is complete per history. Non-trivial: more than two crash points were hit (states strictly inside the operation exist). Distinct: (scenario, seed, crash points, records before).".into()
    }
    fn real_vs_stub(&self) -> Value {
        json!({"real": ["file_utils::SafeFileCreator", "mdb_shard flush / write_out_from_reader / consolidate_shards_in_directory / keyed export / ShardFileManager re-open", "cas_client::LocalClient::{new, put, get, exists}", "chunk_cache::DiskCache::{put, initialize, get}", "the file system (tmpfs), inotify"], "simulated": ["process stop: directory copy at a named point between two file-system effects", "process stop after each create/delete/rename the kernel reported (state derived from the effect log)", "partially written temp files (prefix variants)"]})
    }
    fn assumptions(&self, _focus: &str) -> Vec<String> {
        vec![
            "Crash model as in the property: completed system calls persist, user-space buffered data is lost, no torn page cache; states are taken at library-level points between file-system effects, not at individual write(2) calls (prefix variants of temp files cover the states in between).".into(),
            "A name counts as final when a restart-time reader would take it for a complete object (<64 hex>.mdb, <prefix>.<64 hex>, a well-formed cache item name); every other name in these directories is treated as temporary, whatever its spelling.".into(),
        ]
    }
}

#[allow(dead_code)]
fn _unused(_: BTreeMap<u8, u8>) {}
