//! C20 — singleflight under a simulated scheduler: real `utils::singleflight::Group` on a single-threaded tokio
//! runtime with paused clock; caller arrival times, task durations and the extra yields/sleeps at the guarded yield
//! points between lock sections (H5) come from the schedule stream.

use std::sync::{Arc, Mutex};
use std::time::Duration;

use serde::{Deserialize, Serialize};
use serde_json::{json, Value};
use utils::errors::SingleflightError;
use utils::singleflight::Group;

use crate::core::*;
use crate::prng::{label_hash, mix, Rng};

pub struct FlightEngine;

#[derive(Clone, Debug, Serialize, Deserialize, PartialEq)]
pub struct Caller {
    pub key: u8,
    pub arrival_ms: u64,
    pub task_ms: u64,
    /// 0 ok, 1 error, 2 panic
    pub outcome: u8,
    /// multi-threaded mode only: the caller's runtime is shut down (its call and, if it owns the flight, the spawned
    /// owner task are dropped) at the k-th time its call is found pending
    #[serde(default)]
    pub cancel_after: Option<u32>,
    /// single-threaded mode only: the caller's task is aborted this many simulated ms after the start (its `work`
    /// future is dropped; the runtime — and with it a spawned owner task — lives on)
    #[serde(default)]
    pub abort_at_ms: Option<u64>,
}

#[derive(Clone, Debug, Serialize, Deserialize, PartialEq)]
pub struct Plan {
    pub callers: Vec<Caller>,
    pub schedule_seed: u64,
    /// 0: no extra scheduling at yield points; 1: plain yields; 2: yields and simulated sleeps
    pub yield_mode: u32,
    /// probability (out of 16) that a yield point fires
    pub yield_p: u32,
    /// multi-threaded mode: every caller is an OS thread with its own runtime under the cooperative thread
    /// scheduler (switches at the H5 points, at the lock-aware points inside Call, and whenever a caller is pending)
    #[serde(default)]
    pub mt: bool,
    /// a single flight joined by this many callers at once (sizes around 2^16, where a 16-bit counter wraps); the
    /// `callers` list is ignored
    #[serde(default)]
    pub herd: Option<u32>,
}

#[derive(Default)]
struct Log {
    seq: u64,
    yields_fired: u64,
    yield_counter: u64,
    task_start: Vec<Option<u64>>,
    task_end: Vec<Option<u64>>,
    task_runs: Vec<u32>,
    invoke: Vec<Option<u64>>,
    ret: Vec<Option<u64>>,
    result: Vec<Option<(Res, bool)>>,
    /// event number at which a caller's runtime was shut down mid-call
    cancelled: Vec<Option<u64>>,
    /// event number at which a caller's task was aborted before it had returned (its runtime lives on)
    aborted: Vec<Option<u64>>,
}

#[derive(Clone, Debug, PartialEq)]
enum Res {
    Ok(u64),
    /// error text carrying the failing task's token
    Err(String),
    Panic(String),
    Other(String),
}

struct FlightHooks {
    log: Arc<Mutex<Log>>,
    seed: u64,
    mode: u32,
    p: u32,
}

impl utils::verif::Hooks for FlightHooks {
    fn delay(&self, label: &'static str) -> Option<Duration> {
        if self.mode == 0 {
            return None;
        }
        let mut l = self.log.lock().unwrap();
        l.yield_counter += 1;
        let r = mix(&[self.seed, label_hash(label), l.yield_counter]);
        if (r % 16) as u32 >= self.p {
            return None;
        }
        l.yields_fired += 1;
        if self.mode == 1 || (r >> 8) % 2 == 0 {
            Some(Duration::ZERO)
        } else {
            Some(Duration::from_millis(1 + (r >> 16) % 50))
        }
    }
}

fn token_of(s: &str) -> Option<u64> {
    let i = s.find("task#")?;
    let rest = &s[i + 5..];
    let end = rest.find(|c: char| !c.is_ascii_digit()).unwrap_or(rest.len());
    rest[..end].parse().ok()
}

impl Engine for FlightEngine {
    fn name(&self) -> &'static str {
        "flight"
    }
    fn properties(&self) -> &'static [&'static str] {
        &["C20"]
    }
    fn budget(&self, _focus: &str, tier: Tier) -> Budget {
        match tier {
            Tier::Quick => Budget { runs: 400_000, chunk: 5_000, max_wall_s: 120 },
            Tier::Thorough => Budget { runs: 8_000_000, chunk: 20_000, max_wall_s: 900 },
        }
    }

    fn gen_plan(&self, seed: u64, run: u64, _focus: &str, _tier: Tier) -> Value {
        let mut rng = Rng::stream(seed, run, "flight");
        let n = rng.weighted(&[1, 3, 4, 4, 3, 2, 1, 1]) + 1;
        let n_keys = rng.weighted(&[5, 3, 1]) as u8 + 1;
        // arrival pattern: all at once / spread around the task duration / back to back
        let pattern = rng.below(4);
        // (now and then flights that last minutes or an hour of simulated time: any patience a waiter might have runs out)
        let base_task = *rng.pick(&[0u64, 1, 10, 100, 0, 1, 10, 100, 130_000, 4_000_000]);
        let mut callers = Vec::new();
        for i in 0..n {
            let task_ms = match rng.below(4) {
                0 => 0,
                1 => base_task,
                _ => rng.range(0, 2 * base_task + 3),
            };
            let arrival_ms = match pattern {
                0 => 0,
                1 => rng.range(0, 2 * base_task + 3),
                2 => (i as u64) * (base_task + rng.range(0, 2)),
                _ => *rng.pick(&[0, base_task, base_task + 1, base_task.saturating_sub(1), 2 * base_task]),
            };
            callers.push(Caller {
                key: rng.below(n_keys as u64) as u8,
                arrival_ms,
                task_ms,
                outcome: rng.weighted(&[6, 2, 1]) as u8,
                cancel_after: None,
                abort_at_ms: None,
            });
        }
        let p = Plan {
            callers,
            schedule_seed: rng.next_u64(),
            yield_mode: rng.weighted(&[1, 3, 4]) as u32,
            yield_p: *rng.pick(&[2u32, 4, 8, 12, 16]),
            mt: rng.chance(1, 3),
            herd: None,
        };
        let mut p = p;
        if rng.chance(1, 40_000) {
            p.mt = false;
            p.herd = Some(*rng.pick(&[65_535u32, 65_536, 65_536, 65_537, 131_072]));
            return serde_json::to_value(p).unwrap();
        }
        if p.mt && p.callers.len() > 4 {
            p.callers.truncate(4);
        }
        if p.mt && rng.chance(1, 3) {
            // fault: one caller's runtime goes away while its call is in flight
            let i = rng.usize_below(p.callers.len());
            p.callers[i].cancel_after = Some(1 + rng.below(4) as u32);
        }
        if !p.mt && p.callers.len() >= 2 && rng.chance(1, 5) {
            // fault: one caller is cancelled (its task aborted) around its call; no hook-only yields in such runs, so
            // that the call can only be dropped where the shipped code has an await
            let i = rng.usize_below(p.callers.len());
            let c = &p.callers[i];
            p.callers[i].abort_at_ms = Some(c.arrival_ms + rng.range(0, 2 * c.task_ms + 3));
            p.yield_mode = 0;
        }
        serde_json::to_value(p).unwrap()
    }

    fn execute(&self, plan: &Value, _focus: &str) -> RunReport {
        let p: Plan = serde_json::from_value(plan.clone()).expect("flight plan");
        let mut rep = RunReport::default();
        if let Some(h) = p.herd {
            run_herd(h as usize, &mut rep);
            return rep;
        }
        let n = p.callers.len();
        let log = Arc::new(Mutex::new(Log {
            task_start: vec![None; n],
            task_end: vec![None; n],
            task_runs: vec![0; n],
            invoke: vec![None; n],
            ret: vec![None; n],
            result: vec![None; n],
            cancelled: vec![None; n],
            aborted: vec![None; n],
            ..Default::default()
        }));
        let (hung, sim_ms) = if p.mt {
            run_mt(&p, log.clone())
        } else {
            run_st(&p, log.clone())
        };
        let _ = take_last_panic();
        rep.sim_ms = sim_ms;
        check_history(&p, &log, hung, &mut rep);
        rep
    }

    fn shrink(&self, plan: &Value) -> Vec<Value> {
        shrink_plan(plan)
    }

    fn rule(&self, _focus: &str) -> String {
        "Each run: 1-8 callers over 1-3 keys with seeded arrival times and task durations (milliseconds, and in two plans of ten minutes to an hour of simulated time), tasks that succeed with a unique token, fail with a unique message, or panic. Two execution modes: (single-threaded) a paused-clock current-thread runtime where at each of the five guarded yield points inside Group::work the schedule stream decides whether the caller yields or sleeps; (multi-threaded, one run in three) every caller is an OS thread with its own runtime under the cooperative one-thread-at-a-time scheduler, which switches at those yield points, at lock-aware points inside Call::{get_future,complete} that are live only where the result lock is not held, and whenever a caller's future is pending; in one multi-threaded run in three one caller's runtime is shut down at the 1st..4th time its call is found pending (the call and, for an owner, its spawned task are dropped: every other caller must still return, with the dropped-owner notification at worst); a run in which every remaining caller stays pending is a hang; one run in 40 000 is a single flight joined by 65 535 … 131 072 callers at once; in one single-threaded run in five one caller's task is aborted around its call (no hook-only yields in such runs): the others must still get the flight's real outcome, since the spawned owner task lives on. Non-trivial: at least one caller received another caller's outcome (a waiter overlapped a flight) and at least one schedule decision fired. Distinct: hash of the per-caller (invoke, return, task start) event numbers, key and outcome kind.".into()
    }
    fn real_vs_stub(&self) -> Value {
        json!({"real": ["utils::singleflight::{Group, Call, OwnerTask}", "tokio Mutex/Notify/JoinHandle, parking_lot RwLock"], "simulated": ["arrival times, task durations (paused clock)", "scheduling between lock sections (H5 yield points)", "multi-threaded mode: OS-thread interleaving at H5 points, lock-aware points and pending polls", "shutdown of a caller's runtime mid-call"], "limit": "interleavings at lock-section granularity plus wherever a lock-aware point finds the result lock free; not at atomic-instruction granularity"})
    }
    fn assumptions(&self, _focus: &str) -> Vec<String> {
        vec!["Synchronous (parking_lot) locks are acquired without a timeout: a schedule in which a thread runs while another is parked inside a held synchronous lock is not explored (it would deadlock the shipped code under the cooperative scheduler), so a failure that needs a wall-clock lock timeout is out of reach (DESIGN §10, seeded change C20-5).".into(), "tokio's primitives are trusted; multi-threaded interleavings are emulated by yields/sleeps at the guarded points between lock sections and, in multi-threaded mode, by a cooperative thread scheduler (DESIGN §7 C20).".into()]
    }
}

/// One flight joined by `n` callers at once: one task runs, every caller gets its value, nobody waits forever.
fn run_herd(n: usize, rep: &mut RunReport) {
    let rt = tokio::runtime::Builder::new_current_thread().enable_all().start_paused(true).build().unwrap();
    let ran = Arc::new(std::sync::atomic::AtomicU64::new(0));
    let (hung, got_value, owners) = rt.block_on(async {
        let group: Arc<Group<u64, String>> = Arc::new(Group::new());
        let mut hs = Vec::with_capacity(n);
        for _ in 0..n {
            let g = group.clone();
            let ran = ran.clone();
            hs.push(tokio::spawn(async move {
                let fut = async move {
                    ran.fetch_add(1, std::sync::atomic::Ordering::SeqCst);
                    tokio::time::sleep(Duration::from_millis(10)).await;
                    Ok::<u64, String>(7)
                };
                let (res, owner) = g.work("herd", fut).await;
                (matches!(res, Ok(7)), owner)
            }));
        }
        let all = async {
            let mut ok = 0usize;
            let mut owners = 0usize;
            for h in hs {
                if let Ok((v, o)) = h.await {
                    ok += v as usize;
                    owners += o as usize;
                }
            }
            (ok, owners)
        };
        match tokio::time::timeout(Duration::from_secs(365 * 24 * 3600), all).await {
            Ok((ok, owners)) => (false, ok, owners),
            Err(_) => (true, 0, 0),
        }
    });
    drop(rt);
    let _ = take_last_panic();
    if hung {
        rep.violate("C20.e", "caller-never-returned", format!("a flight joined by {n} callers at once never completed for some of them"));
    } else {
        if got_value != n {
            rep.violate("C20.b", "herd-value", format!("{got_value} of {n} callers of one flight received the task's value"));
        }
        if owners != 1 || ran.load(std::sync::atomic::Ordering::SeqCst) != 1 {
            rep.violate("C20.a", "herd-owner", format!("{owners} owners and {} task executions for one flight of {n} callers", ran.load(std::sync::atomic::Ordering::SeqCst)));
        }
    }
    rep.count("probe:flight_joined_by_2^16_callers_or_more", (n >= 65_536) as u64);
    rep.count("callers", n as u64);
    rep.count("flights", 1);
    rep.nontrivial = true;
    rep.signature = mix(&[0x4e2d, n as u64]);
    rep.sample = Some(json!({"herd": n}));
}

fn run_st(p: &Plan, log: Arc<Mutex<Log>>) -> (bool, u64) {
    {
        let rt = tokio::runtime::Builder::new_current_thread().enable_all().start_paused(true).build().unwrap();
        let hooks: Arc<dyn utils::verif::Hooks> = Arc::new(FlightHooks {
            log: log.clone(),
            seed: p.schedule_seed,
            mode: p.yield_mode,
            p: p.yield_p,
        });
        let callers = p.callers.clone();
        let log2 = log.clone();
        let (hung, sim_ms) = rt.block_on(async move {
            let start = tokio::time::Instant::now();
            let prev = utils::verif::install(Some(hooks));
            let group: Arc<Group<u64, String>> = Arc::new(Group::new());
            let mut hs = Vec::new();
            for (i, c) in callers.iter().cloned().enumerate() {
                let g = group.clone();
                let log = log2.clone();
                hs.push(tokio::spawn(async move {
                    if c.arrival_ms > 0 {
                        tokio::time::sleep(Duration::from_millis(c.arrival_ms)).await;
                    }
                    let tlog = log.clone();
                    let fut = async move {
                        {
                            let mut l = tlog.lock().unwrap();
                            l.seq += 1;
                            let s = l.seq;
                            l.task_start[i] = Some(s);
                            l.task_runs[i] += 1;
                        }
                        if c.task_ms > 0 {
                            tokio::time::sleep(Duration::from_millis(c.task_ms)).await;
                        } else {
                            tokio::task::yield_now().await;
                        }
                        {
                            let mut l = tlog.lock().unwrap();
                            l.seq += 1;
                            let s = l.seq;
                            l.task_end[i] = Some(s);
                        }
                        match c.outcome {
                            0 => Ok(i as u64),
                            1 => Err(format!("failure of task#{i}")),
                            _ => panic!("panic in task#{i}"),
                        }
                    };
                    {
                        let mut l = log.lock().unwrap();
                        l.seq += 1;
                        let s = l.seq;
                        l.invoke[i] = Some(s);
                    }
                    let (res, owner) = g.work(&format!("key{}", c.key), fut).await;
                    let r = match res {
                        Ok(t) => Res::Ok(t),
                        Err(SingleflightError::InternalError(e)) => Res::Err(e),
                        Err(SingleflightError::WaiterInternalError(e)) => Res::Err(e),
                        Err(SingleflightError::JoinError(e)) => Res::Panic(e),
                        Err(SingleflightError::OwnerPanicked) => Res::Panic("owner panicked".into()),
                        Err(e) => Res::Other(format!("{e:?}")),
                    };
                    let mut l = log.lock().unwrap();
                    l.seq += 1;
                    let s = l.seq;
                    l.ret[i] = Some(s);
                    l.result[i] = Some((r, owner));
                }));
            }
            // cancellation of callers: abort the caller's task at the drawn time if it has not returned by then
            for (i, c) in callers.iter().enumerate() {
                if let Some(at) = c.abort_at_ms {
                    let ah = hs[i].abort_handle();
                    let log = log2.clone();
                    tokio::spawn(async move {
                        tokio::time::sleep(Duration::from_millis(at)).await;
                        let mut l = log.lock().unwrap();
                        if l.ret[i].is_none() {
                            l.seq += 1;
                            let s = l.seq;
                            l.aborted[i] = Some(s);
                            drop(l);
                            ah.abort();
                        }
                    });
                }
            }
            let all = async {
                for h in hs {
                    let _ = h.await;
                }
            };
            let hung = tokio::time::timeout(Duration::from_secs(365 * 24 * 3600), all).await.is_err();
            utils::verif::install(prev);
            (hung, start.elapsed().as_millis() as u64)
        });
        drop(rt);
        (hung, sim_ms)
    }
}

fn check_history(p: &Plan, log: &Arc<Mutex<Log>>, hung: bool, rep: &mut RunReport) {
    let n = p.callers.len();
    {
        let l = log.lock().unwrap();
        // C20.e
        for i in 0..n {
            if l.ret[i].is_none() && l.cancelled[i].is_none() && l.aborted[i].is_none() {
                rep.violate("C20.e", "caller-never-returned", format!("caller {i} (key {}) never returned; hung={hung}", p.callers[i].key));
            }
        }
        // C20.a: owners ran exactly their own task once; nobody else's task ran
        for i in 0..n {
            let Some((res, owner)) = &l.result[i] else { continue };
            if *owner && l.task_runs[i] != 1 {
                rep.violate("C20.a", "owner-task-runs", format!("caller {i} is the owner of a flight but its task ran {} times", l.task_runs[i]));
            }
            if !*owner && l.task_runs[i] != 0 {
                rep.violate("C20.a", "waiter-task-ran", format!("caller {i} was a waiter but its own task ran {} times", l.task_runs[i]));
            }
            if let Res::Other(e) = res {
                rep.violate("C20.b", "internal-error", format!("caller {i} received internal singleflight error {e}"));
            }
        }
        // tasks of one key never overlap
        for i in 0..n {
            for j in i + 1..n {
                if p.callers[i].key != p.callers[j].key {
                    continue;
                }
                if let (Some(si), Some(sj)) = (l.task_start[i], l.task_start[j]) {
                    // a task dropped with its runtime ended at the shutdown
                    let ei = l.task_end[i].or(l.cancelled[i]).unwrap_or(u64::MAX);
                    let ej = l.task_end[j].or(l.cancelled[j]).unwrap_or(u64::MAX);
                    if si < ej && sj < ei {
                        rep.violate("C20.a", "concurrent-tasks-same-key", format!("tasks of callers {i} and {j} (same key) ran at the same time"));
                    }
                }
            }
        }
        // C20.b/c/d: every caller's outcome is the outcome of one flight of its key that was alive during the call
        let mut overlapped_waiter = false;
        for i in 0..n {
            let Some((res, owner)) = &l.result[i] else { continue };
            let (Some(inv), Some(ret)) = (l.invoke[i], l.ret[i]) else { continue };
            let flight_ok = |t: usize| -> Result<(), String> {
                if p.callers[t].key != p.callers[i].key {
                    return Err(format!("flight of caller {t} has another key"));
                }
                let Some(ts) = l.task_start[t] else { return Err(format!("task {t} never ran")) };
                if ts > ret {
                    return Err(format!("task {t} started (event {ts}) after the caller returned (event {ret})"));
                }
                if let Some(oret) = l.ret[t] {
                    if t != i && oret < inv {
                        return Err(format!("owner {t} had already returned (event {oret}) when caller {i} invoked (event {inv})"));
                    }
                }
                Ok(())
            };
            match res {
                Res::Ok(t) => {
                    let t = *t as usize;
                    if t >= n || p.callers[t].outcome != 0 {
                        rep.violate("C20.b", "value-from-nowhere", format!("caller {i} got value {t} which no successful task produced"));
                    } else if let Err(e) = flight_ok(t) {
                        let clause = if e.contains("already returned") { "C20.d" } else if e.contains("another key") { "C20.c" } else { "C20.b" };
                        rep.violate(clause, "wrong-flight", format!("caller {i} got the value of task {t}: {e}"));
                    }
                    if *owner && t != i {
                        rep.violate("C20.b", "owner-got-other-value", format!("owner {i} got the value of task {t}"));
                    }
                    if !*owner && t != i {
                        overlapped_waiter = true;
                    }
                },
                Res::Err(msg) => match token_of(msg) {
                    Some(t) if (t as usize) < n && p.callers[t as usize].outcome == 1 => {
                        if let Err(e) = flight_ok(t as usize) {
                            let clause = if e.contains("already returned") { "C20.d" } else if e.contains("another key") { "C20.c" } else { "C20.b" };
                            rep.violate(clause, "wrong-flight", format!("caller {i} got the error of task {t}: {e}"));
                        }
                        if !*owner {
                            overlapped_waiter = true;
                        }
                    },
                    _ => rep.violate("C20.b", "error-from-nowhere", format!("caller {i} got error {msg:?} which no failing task produced")),
                },
                Res::Panic(_) => {
                    // the notification also stands for an owner task that was dropped with its runtime before it
                    // produced a result (the call of a cancelled owner is never removed, so it may be met later too)
                    let found = (0..n).any(|t| p.callers[t].outcome == 2 && flight_ok(t).is_ok())
                        || (0..n).any(|t| t != i && p.callers[t].key == p.callers[i].key && l.cancelled[t].is_some_and(|c| c < ret));
                    if !found {
                        rep.violate("C20.b", "panic-from-nowhere", format!("caller {i} was told the owner panicked but no panicking task of its key was alive during the call"));
                    }
                    if *owner && p.callers[i].outcome != 2 {
                        rep.violate("C20.b", "owner-panic-mismatch", format!("owner {i} was told its task panicked but it did not"));
                    }
                    if !*owner {
                        overlapped_waiter = true;
                    }
                },
                Res::Other(_) => {},
            }
            // an owner whose task ran gets exactly that task's outcome
            if *owner {
                let want = p.callers[i].outcome;
                let got = match res {
                    Res::Ok(_) => 0,
                    Res::Err(_) => 1,
                    Res::Panic(_) => 2,
                    Res::Other(_) => 9,
                };
                if got != 9 && got != want {
                    rep.violate("C20.b", "owner-outcome-kind", format!("owner {i}: task outcome kind {want}, received kind {got}"));
                }
            }
        }
        let owners = l.result.iter().flatten().filter(|r| r.1).count()
            + (0..n).filter(|&i| (l.cancelled[i].is_some() || l.aborted[i].is_some()) && l.result[i].is_none() && l.task_runs[i] > 0).count();
        let ran = l.task_runs.iter().filter(|&&r| r > 0).count();
        if owners != ran && !hung {
            rep.violate("C20.a", "flights-vs-tasks", format!("{owners} owning calls but {ran} tasks executed"));
        }
        rep.count("callers", n as u64);
        rep.count("flights", ran as u64);
        rep.count("fault:yield_points_fired", l.yields_fired);
        rep.count("fault:task_error", p.callers.iter().enumerate().filter(|(i, c)| c.outcome == 1 && l.task_runs[*i] > 0).count() as u64);
        rep.count("fault:task_panic", p.callers.iter().enumerate().filter(|(i, c)| c.outcome == 2 && l.task_runs[*i] > 0).count() as u64);
        rep.count("fault:caller_task_aborted", l.aborted.iter().flatten().count() as u64);
        rep.count(
            "probe:owner_aborted_while_a_waiter_was_joined",
            (0..n).filter(|&i| l.aborted[i].is_some() && l.task_runs[i] > 0 && (0..n).any(|j| j != i && p.callers[j].key == p.callers[i].key && matches!(&l.result[j], Some((_, false))))).count() as u64,
        );
        rep.count("fault:runtime_shutdown_mid_call", l.cancelled.iter().flatten().count() as u64);
        rep.count(
            "probe:owner_task_dropped_unfinished",
            (0..n).filter(|&i| l.cancelled[i].is_some() && l.task_end[i].is_none() && (0..n).any(|j| j != i && p.callers[j].key == p.callers[i].key)).count() as u64,
        );
        rep.count("probe:coalesced_callers", (n - ran.min(n)) as u64);
        rep.nontrivial = overlapped_waiter && l.yields_fired > 0;
        let mut words: Vec<u64> = Vec::new();
        for i in 0..n {
            words.push(l.invoke[i].unwrap_or(0));
            words.push(l.ret[i].unwrap_or(0));
            words.push(l.task_start[i].unwrap_or(0));
            words.push(p.callers[i].key as u64 * 4 + p.callers[i].outcome as u64);
        }
        rep.signature = mix(&words);
        rep.sample = Some(json!({"callers": p.callers.iter().map(|c| json!([c.key, c.arrival_ms, c.task_ms, c.outcome, c.cancel_after, c.abort_at_ms])).collect::<Vec<_>>(), "yield_mode": p.yield_mode, "multi_threaded": p.mt, "flights": ran, "yields_fired": l.yields_fired}));
        rep.count(if p.mt { "runs:multi_threaded" } else { "runs:single_threaded" }, 1);
    }
}

fn shrink_plan(plan: &Value) -> Vec<Value> {
    let p: Plan = serde_json::from_value(plan.clone()).expect("flight plan");
    let mut out = Vec::new();
    for i in 0..p.callers.len() {
        if p.callers.len() > 1 {
            let mut q = p.clone();
            q.callers.remove(i);
            out.push(q);
        }
    }
    if p.yield_mode > 0 && !p.mt {
        let mut q = p.clone();
        q.yield_mode -= 1;
        out.push(q);
    }
    for i in 0..p.callers.len() {
        let c = &p.callers[i];
        if c.outcome != 0 {
            let mut q = p.clone();
            q.callers[i].outcome = 0;
            out.push(q);
        }
        if c.arrival_ms != 0 {
            let mut q = p.clone();
            q.callers[i].arrival_ms = 0;
            out.push(q);
        }
        if c.task_ms > 1 {
            let mut q = p.clone();
            q.callers[i].task_ms = 1;
            out.push(q);
        }
        if c.key != 0 {
            let mut q = p.clone();
            q.callers[i].key = 0;
            out.push(q);
        }
        if c.cancel_after.is_some() {
            let mut q = p.clone();
            q.callers[i].cancel_after = None;
            out.push(q);
        }
        if c.abort_at_ms.is_some() {
            let mut q = p.clone();
            q.callers[i].abort_at_ms = None;
            out.push(q);
        }
    }
    out.into_iter().map(|q| serde_json::to_value(q).unwrap()).collect()
}

// ------------------------------------------------------------------------------------------------
// multi-threaded mode

struct MtHooks {
    sched: Arc<crate::sched::Sched>,
    tid: usize,
    log: Arc<Mutex<Log>>,
}

impl utils::verif::Hooks for MtHooks {
    fn point(&self, label: &'static str) {
        self.log.lock().unwrap().yields_fired += 1;
        self.sched.point(self.tid, label);
    }
    fn delay(&self, label: &'static str) -> Option<Duration> {
        // the async yield points between lock sections become thread-switch points
        self.log.lock().unwrap().yields_fired += 1;
        self.sched.point(self.tid, label);
        None
    }
}

/// Drives a caller's future; whenever it is pending the thread hands control to the scheduler and asks to be polled
/// again. Resolves to None when the scheduler found that nobody can make progress any more.
struct Stepper<F> {
    inner: std::pin::Pin<Box<F>>,
    sched: Arc<crate::sched::Sched>,
    tid: usize,
    cancel_after: Option<u32>,
    pending_polls: u32,
    log: Arc<Mutex<Log>>,
}

impl<F: std::future::Future> std::future::Future for Stepper<F> {
    type Output = Option<F::Output>;
    fn poll(mut self: std::pin::Pin<&mut Self>, cx: &mut std::task::Context<'_>) -> std::task::Poll<Self::Output> {
        match self.inner.as_mut().poll(cx) {
            std::task::Poll::Ready(v) => std::task::Poll::Ready(Some(v)),
            std::task::Poll::Pending => {
                self.pending_polls += 1;
                if self.cancel_after == Some(self.pending_polls) {
                    // fault: this caller's runtime is shut down now, with the call (and possibly its owner task)
                    // still pending
                    let mut l = self.log.lock().unwrap();
                    l.seq += 1;
                    let s = l.seq;
                    l.cancelled[self.tid] = Some(s);
                    return std::task::Poll::Ready(None);
                }
                if self.sched.blocked(self.tid) {
                    return std::task::Poll::Ready(None);
                }
                cx.waker().wake_by_ref();
                std::task::Poll::Pending
            },
        }
    }
}

fn run_mt(p: &Plan, log: Arc<Mutex<Log>>) -> (bool, u64) {
    let n = p.callers.len();
    let sched = crate::sched::Sched::new(n, p.schedule_seed, (p.schedule_seed % 4) as u32, std::env::var("XSIM_TRACE").is_ok());
    // the group is built either outside any runtime or inside a start-up runtime that is gone by the time it is used
    // (a group must not be tied to the runtime it was created on)
    let group: Arc<Group<u64, String>> = if p.schedule_seed % 2 == 0 {
        Arc::new(Group::new())
    } else {
        let rt0 = tokio::runtime::Builder::new_current_thread().enable_all().build().unwrap();
        let g = rt0.block_on(async { Arc::new(Group::new()) });
        drop(rt0);
        g
    };
    let mut hs = Vec::new();
    for (i, c) in p.callers.iter().cloned().enumerate() {
        let sched = sched.clone();
        let log = log.clone();
        let g = group.clone();
        hs.push(std::thread::spawn(move || {
            utils::verif::install(Some(Arc::new(MtHooks { sched: sched.clone(), tid: i, log: log.clone() })));
            sched.enter(i);
            let rt = tokio::runtime::Builder::new_current_thread().enable_all().build().unwrap();
            let tlog = log.clone();
            let main = async move {
                for _ in 0..c.arrival_ms.min(3) {
                    utils::verif::point("caller:arrive");
                }
                let tl2 = tlog.clone();
                let fut = async move {
                    {
                        let mut l = tl2.lock().unwrap();
                        l.seq += 1;
                        let s = l.seq;
                        l.task_start[i] = Some(s);
                        l.task_runs[i] += 1;
                    }
                    for k in 0..c.task_ms.min(3) {
                        utils::verif::point("task:step");
                        if (c.task_ms + k) % 2 == 1 {
                            // the task is really pending here: the runtime goes back to the caller's future
                            tokio::task::yield_now().await;
                        }
                    }
                    {
                        let mut l = tl2.lock().unwrap();
                        l.seq += 1;
                        let s = l.seq;
                        l.task_end[i] = Some(s);
                    }
                    match c.outcome {
                        0 => Ok(i as u64),
                        1 => Err(format!("failure of task#{i}")),
                        _ => panic!("panic in task#{i}"),
                    }
                };
                {
                    let mut l = tlog.lock().unwrap();
                    l.seq += 1;
                    let s = l.seq;
                    l.invoke[i] = Some(s);
                }
                let (res, owner) = g.work(&format!("key{}", c.key), fut).await;
                let r = match res {
                    Ok(t) => Res::Ok(t),
                    Err(SingleflightError::InternalError(e)) => Res::Err(e),
                    Err(SingleflightError::WaiterInternalError(e)) => Res::Err(e),
                    Err(SingleflightError::JoinError(e)) => Res::Panic(e),
                    Err(SingleflightError::OwnerPanicked) => Res::Panic("owner panicked".into()),
                    Err(e) => Res::Other(format!("{e:?}")),
                };
                let mut l = tlog.lock().unwrap();
                l.seq += 1;
                let s = l.seq;
                l.ret[i] = Some(s);
                l.result[i] = Some((r, owner));
            };
            let _ = rt.block_on(Stepper { inner: Box::pin(main), sched: sched.clone(), tid: i, cancel_after: c.cancel_after, pending_polls: 0, log: log.clone() });
            // the runtime goes away: a still-pending owner task of this runtime is dropped with it (this thread is
            // still the scheduled one, so the points inside the drop handler switch threads as usual)
            drop(rt);
            utils::verif::install(None);
            sched.finish(i);
        }));
    }
    for h in hs {
        let _ = h.join();
    }
    (sched.is_stalled(), 0)
}
