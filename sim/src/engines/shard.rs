//! `shard` engine (C05, C09, C10, C18): model shards -> real in-memory shards, serialised shards read back through
//! simulated readers (short reads, Pending), shard-directory histories (flush / register / consolidate / keyed
//! re-export / re-open) under a simulated clock with controlled mtimes.

use std::collections::{BTreeMap, BTreeSet, HashMap};
use std::io::Cursor;
use std::path::{Path, PathBuf};
use std::sync::atomic::{AtomicU64, Ordering};
use std::sync::Arc;
use std::time::Duration;

use mdb_shard::cas_structs::MDBCASInfo;
use mdb_shard::file_structs::FileDataSequenceEntry;
use mdb_shard::shard_file_reconstructor::FileReconstructor;
use mdb_shard::shard_in_memory::MDBInMemoryShard;
use mdb_shard::streaming_shard::MDBMinimalShard;
use mdb_shard::{MDBShardFile, MDBShardInfo, ShardFileManager};
use merklehash::MerkleHash;
use serde::{Deserialize, Serialize};
use serde_json::{json, Value};

use crate::core::*;
use crate::engines::session::{scratch_dir, ScratchGuard};
use crate::prng::{mix, Rng};
use crate::refmodel::*;
use crate::shardmodel::*;

pub struct ShardEngine;

#[derive(Clone, Debug, Serialize, Deserialize, PartialEq)]
pub enum DirOp {
    /// add the records of model `m` (index into `specs`) to the manager of directory `dir`, xorbs then files
    Add { dir: u8, m: u8, flush_after: bool },
    Flush { dir: u8 },
    /// write model `m` directly as a shard file into `dir` (as another process would) and register it
    Plant { dir: u8, m: u8 },
    Consolidate { dir: u8, threshold: u64 },
    /// re-export every shard of `from` into `to` under hmac key id `key` (0 = zero key), include flags, validity secs
    Keyed { from: u8, to: u8, key: u8, flags: u8, valid_secs: u64 },
    Reopen { dir: u8 },
    AdvanceClock { secs: u64 },
    /// skew the simulated mtime clock (files written later may look older): signed step in ms
    MtimeStep { ms: i64 },
    CleanExpired { dir: u8, grace: u64 },
    Query { dir: u8, seed: u64, n: u32 },
    /// as Keyed, but the export is only written into `to` (as another process would): the manager of that directory
    /// learns of it at its next refresh or re-open
    KeyedExternal { from: u8, to: u8, key: u8, flags: u8, valid_secs: u64 },
    /// the directory's long-lived manager rescans its directory (ShardFileManager::refresh_shard_dir)
    Refresh { dir: u8 },
    /// hand one keyed export of `dir` to the manager by its own file path (register_shards_by_path), as the
    /// global-dedup path does with a downloaded shard
    RegisterByPath { dir: u8, pick: u64 },
    /// re-export one shard of `dir` into the same directory with an expiry `valid_secs` from now (unkeyed, as the
    /// shard cache holds them); once expired it is no longer loaded — and must not be deleted by a consolidation
    ExportWithExpiry { dir: u8, pick: u64, valid_secs: u64 },
}

#[derive(Clone, Debug, Serialize, Deserialize, PartialEq)]
pub struct Plan {
    /// "format" (C09) | "dedup" (C05) | "setops" (C10) | "keyed" (C18)
    pub mode: String,
    pub specs: Vec<ShardSpec>,
    pub reader_seed: u64,
    pub reader_mode: u32,
    pub pending_p: u64,
    pub reinsert: u32,
    pub ops: Vec<DirOp>,
    pub query_seed: u64,
    /// mode "deduper": the file-level deduper driven directly (in-xorb self-references, xorb cuts, late shards)
    #[serde(default)]
    pub dd: Option<DeduperPlan>,
}

#[derive(Clone, Debug, Serialize, Deserialize, PartialEq)]
pub struct DeduperPlan {
    pub seed: u64,
    pub n_chunks: u32,
    /// size of the pool the file's own (not yet stored) chunks are drawn from: small pools repeat chunks
    pub pool: u32,
    /// the largest batch handed to one process_chunks call
    pub batch_max: u32,
    /// the last model is not known at the start; it arrives through the global-dedup query of the first chunk
    pub late_shard: bool,
    /// xorbs cut by the deduper are added to the index it queries (as the session's shard does)
    pub index_new_xorbs: bool,
}

// ------------------------------------------------------------------------------------------------
// helpers

fn key_of(id: u8) -> H {
    if id == 0 {
        ZERO_H
    } else {
        // keys 2 and 3 agree in their first eight bytes, key 4 starts with eight zero bytes: different keys all the
        // same (a key is compared as a whole, like every hash here)
        let mut k = [0u8; 32];
        Rng::new(0x6B65_7900 + if id == 3 { 2 } else { id as u64 }).fill(&mut k);
        if id == 3 {
            Rng::new(0x6B65_7903).fill(&mut k[8..]);
        }
        if id == 4 {
            k[..8].fill(0);
        }
        k
    }
}

/// Truthfulness of one dedup answer against the set of xorbs known to the model (C05's clause).
fn check_dedup_answer(
    rep: &mut RunReport,
    clause: &str,
    site: &str,
    xorbs: &BTreeMap<H, RefXorbRec>,
    query: &[H],
    ans: &(usize, FileDataSequenceEntry),
    ctx: &str,
) {
    let (n, e) = ans;
    let n = *n;
    if n < 1 || n > query.len() {
        rep.violate(clause, &format!("{site}:count"), format!("{ctx}: reported {n} matched hashes for a query of {}", query.len()));
        return;
    }
    if e.chunk_index_end < e.chunk_index_start || (e.chunk_index_end - e.chunk_index_start) as usize != n {
        rep.violate(clause, &format!("{site}:range"), format!("{ctx}: n={n} but chunk range {}..{}", e.chunk_index_start, e.chunk_index_end));
        return;
    }
    let Some(x) = xorbs.get(&h_of(&e.cas_hash)) else {
        rep.violate(clause, &format!("{site}:unknown-xorb"), format!("{ctx}: answer names xorb {} which was never added", ref_hex(&h_of(&e.cas_hash))));
        return;
    };
    if e.chunk_index_end as usize > x.chunks.len() {
        rep.violate(clause, &format!("{site}:range"), format!("{ctx}: chunk range {}..{} exceeds xorb with {} chunks", e.chunk_index_start, e.chunk_index_end, x.chunks.len()));
        return;
    }
    let mut bytes = 0u32;
    for i in 0..n {
        let c = &x.chunks[e.chunk_index_start as usize + i];
        if c.0 != query[i] {
            rep.violate(clause, &format!("{site}:wrong-chunk"), format!("{ctx}: position {i}: xorb chunk {} != queried {}", ref_hex(&c.0), ref_hex(&query[i])));
            return;
        }
        bytes = bytes.wrapping_add(c.1);
    }
    if bytes != e.unpacked_segment_bytes {
        rep.violate(clause, &format!("{site}:bytes"), format!("{ctx}: reported {} bytes, chunks sum to {bytes} (n={n})", e.unpacked_segment_bytes));
    }
}

/// Seeded dedup queries over the chunks of `xorbs`: present runs, runs past a xorb end, partial matches, absent
/// hashes and hashes sharing a truncated prefix with present ones.
fn gen_queries(rng: &mut Rng, xorbs: &BTreeMap<H, RefXorbRec>, n: usize) -> Vec<Vec<H>> {
    let list: Vec<&RefXorbRec> = xorbs.values().filter(|x| !x.chunks.is_empty()).collect();
    // the xorb stored right after each xorb in a shard holding all of them (records are ordered by hash words)
    let mut ordered: Vec<&RefXorbRec> = xorbs.values().collect();
    ordered.sort_by_key(|x| hkey(&x.hash));
    let next_of: std::collections::HashMap<H, &RefXorbRec> = ordered.windows(2).map(|w| (w[0].hash, w[1])).collect();
    let mut out = Vec::new();
    for _ in 0..n {
        let mut q: Vec<H> = Vec::new();
        if list.is_empty() || rng.chance(1, 8) {
            let mut h = [0u8; 32];
            rng.fill(&mut h);
            q.push(h);
        } else {
            let x = *rng.pick(&list);
            let follow = rng.chance(1, 3);
            // start near the end when the query is meant to run over it
            let a = if follow { x.chunks.len() - 1 - rng.usize_below(x.chunks.len().min(3)) } else { rng.usize_below(x.chunks.len()) };
            let len = if follow { x.chunks.len() - a + rng.urange(1, 3) } else { rng.log_range(1, 40) as usize };
            for i in 0..len {
                match x.chunks.get(a + i) {
                    Some(c) => q.push(c.0),
                    None => {
                        // running past the xorb end: continue with the hash of the *record that follows* in the shard's
                        // CAS section (the next xorb's header, then its chunks), with another xorb's chunks, or junk
                        let past = a + i - x.chunks.len();
                        if follow {
                            if let Some(nx) = next_of.get(&x.hash) {
                                if past == 0 {
                                    q.push(nx.hash);
                                } else if let Some(c) = nx.chunks.get(past - 1) {
                                    q.push(c.0);
                                } else {
                                    q.push(nx.hash);
                                }
                                continue;
                            }
                        }
                        let y = *rng.pick(&list);
                        q.push(y.chunks[rng.usize_below(y.chunks.len())].0);
                    },
                }
            }
            match rng.below(6) {
                0 => {
                    // break the run somewhere
                    let i = rng.usize_below(q.len());
                    rng.fill(&mut q[i]);
                },
                1 => {
                    // first hash shares only the truncated prefix with a present chunk
                    let mut h = q[0];
                    rng.fill(&mut h[8..]);
                    q[0] = h;
                },
                2 => {
                    // a later hash shares only the prefix
                    let i = rng.usize_below(q.len());
                    let mut h = q[i];
                    rng.fill(&mut h[8..]);
                    q[i] = h;
                },
                _ => {},
            }
        }
        out.push(q);
    }
    out
}

fn union_models(a: &ModelShard, b: &ModelShard) -> ModelShard {
    let mut m = a.clone();
    for (h, x) in &b.xorbs {
        m.xorbs.entry(*h).or_insert_with(|| x.clone());
    }
    for (h, f) in &b.files {
        match m.files.get_mut(h) {
            None => {
                m.files.insert(*h, f.clone());
            },
            Some(old) => {
                // the richer variant: flags are or-ed, missing parts taken from the other
                if old.flags & FLAG_VERIFICATION == 0 && f.flags & FLAG_VERIFICATION != 0 {
                    old.flags |= FLAG_VERIFICATION;
                    old.verification = f.verification.clone();
                }
                if old.flags & FLAG_METADATA_EXT == 0 && f.flags & FLAG_METADATA_EXT != 0 {
                    old.flags |= FLAG_METADATA_EXT;
                    old.sha256 = f.sha256;
                }
            },
        }
    }
    m
}

/// C09's structural clauses on serialised bytes against the model they should contain.
fn check_serialised(rep: &mut RunReport, clause_prefix: &str, site: &str, bytes: &[u8], want: &ModelShard, tables_expected: bool) -> Option<RefShard> {
    let p = match ref_shard_parse(bytes) {
        Ok(p) => p,
        Err(e) => {
            rep.violate(&format!("{clause_prefix}.c"), &format!("{site}:unparsable"), format!("independent parser rejects the shard: {e}"));
            return None;
        },
    };
    let got = model_of_parsed(&p);
    if p.files.len() != got.files.len() || p.xorbs.len() != got.xorbs.len() {
        rep.violate(&format!("{clause_prefix}.c"), &format!("{site}:duplicate-records"), format!("{} file / {} xorb records but {} / {} distinct hashes", p.files.len(), p.xorbs.len(), got.files.len(), got.xorbs.len()));
    }
    if got.files != want.files {
        let missing = want.files.keys().filter(|k| !got.files.contains_key(*k)).count();
        let extra = got.files.keys().filter(|k| !want.files.contains_key(*k)).count();
        let differ = want.files.iter().filter(|(k, v)| got.files.get(*k).map(|g| g != *v).unwrap_or(false)).count();
        rep.violate(&format!("{clause_prefix}.a"), &format!("{site}:file-records"), format!("file records differ from the model: {missing} missing, {extra} invented, {differ} altered (of {})", want.files.len()));
    }
    if got.xorbs != want.xorbs {
        let missing = want.xorbs.keys().filter(|k| !got.xorbs.contains_key(*k)).count();
        let extra = got.xorbs.keys().filter(|k| !want.xorbs.contains_key(*k)).count();
        rep.violate(&format!("{clause_prefix}.a"), &format!("{site}:xorb-records"), format!("xorb records differ from the model: {missing} missing, {extra} invented (of {})", want.xorbs.len()));
    }
    // order and lookup tables
    for w in p.files.windows(2) {
        if hkey(&w[0].hash) >= hkey(&w[1].hash) {
            rep.violate(&format!("{clause_prefix}.c"), &format!("{site}:file-order"), "file records are not strictly ordered by hash".into());
            break;
        }
    }
    for w in p.xorbs.windows(2) {
        if hkey(&w[0].hash) >= hkey(&w[1].hash) {
            rep.violate(&format!("{clause_prefix}.c"), &format!("{site}:xorb-order"), "xorb records are not strictly ordered by hash".into());
            break;
        }
    }
    if tables_expected {
        let want_fl: Vec<(u64, u32)> = p.files.iter().zip(p.file_index.iter()).map(|(f, i)| (trunc(&f.hash), *i)).collect();
        if p.file_lookup != want_fl {
            rep.violate(&format!("{clause_prefix}.c"), &format!("{site}:file-lookup-table"), format!("file lookup table has {} entries, expected {}", p.file_lookup.len(), want_fl.len()));
        }
        let want_cl: Vec<(u64, u32)> = p.xorbs.iter().zip(p.xorb_index.iter()).map(|(x, i)| (trunc(&x.hash), *i)).collect();
        if p.cas_lookup != want_cl {
            rep.violate(&format!("{clause_prefix}.c"), &format!("{site}:cas-lookup-table"), format!("xorb lookup table has {} entries, expected {}", p.cas_lookup.len(), want_cl.len()));
        }
        let mut want_ch: Vec<(u64, u32, u32)> = Vec::new();
        for (x, i) in p.xorbs.iter().zip(p.xorb_index.iter()) {
            for (j, c) in x.chunks.iter().enumerate() {
                want_ch.push((trunc(&c.0), *i, j as u32));
            }
        }
        let mut got_ch = p.chunk_lookup.clone();
        if !got_ch.windows(2).all(|w| w[0].0 <= w[1].0) {
            rep.violate(&format!("{clause_prefix}.c"), &format!("{site}:chunk-lookup-order"), "chunk lookup table is not sorted by key".into());
        }
        want_ch.sort();
        got_ch.sort();
        if want_ch != got_ch {
            rep.violate(&format!("{clause_prefix}.c"), &format!("{site}:chunk-lookup-table"), format!("chunk lookup table has {} entries, expected {}", got_ch.len(), want_ch.len()));
        }
    }
    // totals
    let stored: u64 = want.xorbs.values().map(|x| x.num_bytes as u64).sum();
    let on_disk: u64 = want.xorbs.values().map(|x| x.num_bytes_on_disk as u64).sum();
    let mat: u64 = want.files.values().flat_map(|f| f.segments.iter()).map(|s| s.bytes as u64).sum();
    if (p.footer.stored_bytes, p.footer.stored_bytes_on_disk, p.footer.materialized_bytes) != (stored, on_disk, mat) {
        rep.violate(
            &format!("{clause_prefix}.d"),
            &format!("{site}:byte-totals"),
            format!("footer totals (stored {}, on disk {}, materialized {}) != recomputed ({stored}, {on_disk}, {mat})", p.footer.stored_bytes, p.footer.stored_bytes_on_disk, p.footer.materialized_bytes),
        );
    }
    Some(p)
}

/// Real lookups through a short-reading seekable reader (C09.a/b/c/e).
fn check_lookups(rep: &mut RunReport, bytes: &[u8], want: &ModelShard, plan: &Plan, rng: &mut Rng) {
    let mut r = ShortReader::new(bytes, plan.reader_seed, plan.reader_mode);
    let info = match MDBShardInfo::load_from_reader(&mut r) {
        Ok(i) => i,
        Err(e) => {
            rep.violate("C09.a", "load", format!("load_from_reader failed: {e}"));
            return;
        },
    };
    if info.num_bytes() != bytes.len() as u64 {
        rep.violate("C09.d", "num-bytes", format!("num_bytes() {} but the shard has {} bytes", info.num_bytes(), bytes.len()));
    }
    // files: all when small, a sample otherwise
    let fkeys: Vec<&H> = want.files.keys().collect();
    let sample = |rng: &mut Rng, n: usize, cap: usize| -> Vec<usize> {
        if n <= cap {
            (0..n).collect()
        } else {
            (0..cap).map(|_| rng.usize_below(n)).collect()
        }
    };
    for i in sample(rng, fkeys.len(), 200) {
        let h = fkeys[i];
        match info.get_file_reconstruction_info(&mut r, &m_of(h)) {
            Ok(Some(fi)) => {
                if from_file_info(&fi) != want.files[h] {
                    rep.violate("C09.a", "file-lookup", format!("file {} returned a different record", ref_hex(h)));
                }
            },
            Ok(None) => rep.violate("C09.a", "file-lookup-miss", format!("contained file {} (prefix {:#x}) not found among {} files", ref_hex(h), trunc(h), fkeys.len())),
            Err(e) => rep.violate("C09.a", "file-lookup-error", format!("file {}: {e}", ref_hex(h))),
        }
    }
    let xkeys: Vec<&H> = want.xorbs.keys().collect();
    let find_xorb = |r: &mut ShortReader, h: &H| -> Result<Option<MDBCASInfo>, String> {
        // (length inferred from the signature, so a change of the buffer size still builds and is judged by its behaviour)
        let mut idx = Default::default();
        let n = info.get_cas_info_index_by_hash(r, &m_of(h), &mut idx).map_err(|e| e.to_string())?;
        for &i in idx.iter().take(n) {
            use std::io::{Seek, SeekFrom};
            r.seek(SeekFrom::Start(info.metadata.cas_info_offset + 48 * i as u64)).map_err(|e| e.to_string())?;
            if let Some(ci) = MDBCASInfo::deserialize(r).map_err(|e| e.to_string())? {
                if h_of(&ci.metadata.cas_hash) == *h {
                    return Ok(Some(ci));
                }
            }
        }
        Ok(None)
    };
    for i in sample(rng, xkeys.len(), 200) {
        let h = xkeys[i];
        match find_xorb(&mut r, h) {
            Ok(Some(ci)) => {
                if from_cas_info(&ci) != want.xorbs[h] {
                    rep.violate("C09.a", "xorb-lookup", format!("xorb {} returned a different record", ref_hex(h)));
                }
            },
            Ok(None) => rep.violate("C09.a", "xorb-lookup-miss", format!("contained xorb {} (prefix {:#x}) not found among {} xorbs", ref_hex(h), trunc(h), xkeys.len())),
            Err(e) => rep.violate("C09.a", "xorb-lookup-error", format!("xorb {}: {e}", ref_hex(h))),
        }
    }
    // absent keys, incl. ones sharing a truncated prefix with present keys
    for k in 0..40 {
        let mut h = [0u8; 32];
        rng.fill(&mut h);
        if k % 2 == 0 && !fkeys.is_empty() {
            let src = fkeys[rng.usize_below(fkeys.len())];
            h[..8].copy_from_slice(&src[..8]);
        }
        if !want.files.contains_key(&h) {
            match info.get_file_reconstruction_info(&mut r, &m_of(&h)) {
                Ok(None) => {},
                Ok(Some(_)) => rep.violate("C09.b", "absent-file-found", format!("absent file hash {} returned a record", ref_hex(&h))),
                Err(e) => {
                    // 8 or more colliding prefixes are outside the statement's bound; anything else is an error
                    if !e.to_string().contains("ollision") {
                        rep.violate("C09.b", "absent-file-error", format!("{e}"));
                    }
                },
            }
        }
        if k % 2 == 1 && !xkeys.is_empty() {
            let src = xkeys[rng.usize_below(xkeys.len())];
            h[..8].copy_from_slice(&src[..8]);
        }
        if !want.xorbs.contains_key(&h) {
            if let Ok(Some(_)) = find_xorb(&mut r, &h) {
                rep.violate("C09.b", "absent-xorb-found", format!("absent xorb hash {} returned a record", ref_hex(&h)));
            }
        }
    }
    // scans
    match info.read_all_file_info_sections(&mut r) {
        Ok(v) => {
            let got: BTreeMap<H, RefFile> = v.iter().map(|f| (h_of(&f.metadata.file_hash), from_file_info(f))).collect();
            if v.len() != want.files.len() || got != want.files {
                rep.violate("C09.c", "file-scan", format!("scan listed {} file records ({} distinct), model has {}", v.len(), got.len(), want.files.len()));
            }
        },
        Err(e) => rep.violate("C09.c", "file-scan-error", format!("{e}")),
    }
    match info.read_all_cas_blocks_full(&mut r) {
        Ok(v) => {
            let got: BTreeMap<H, RefXorbRec> = v.iter().map(|c| (h_of(&c.metadata.cas_hash), from_cas_info(c))).collect();
            if v.len() != want.xorbs.len() || got != want.xorbs {
                rep.violate("C09.c", "xorb-scan", format!("scan listed {} xorb records ({} distinct), model has {}", v.len(), got.len(), want.xorbs.len()));
            }
        },
        Err(e) => rep.violate("C09.c", "xorb-scan-error", format!("{e}")),
    }
    match info.read_all_truncated_hashes(&mut r) {
        Ok(v) => {
            let total: usize = want.xorbs.values().map(|x| x.chunks.len()).sum();
            if v.len() != total {
                rep.violate("C09.c", "chunk-scan", format!("read_all_truncated_hashes listed {} chunks, model has {total}", v.len()));
            }
        },
        Err(e) => rep.violate("C09.c", "chunk-scan-error", format!("{e}")),
    }
    rep.count("fault:short_reads", r.short_reads);
    let tbl = want.files.len().max(want.xorbs.len()).max(want.xorbs.values().map(|x| x.chunks.len()).sum());
    rep.count("probe:table_over_256_entries(interpolation phase)", (tbl > 256) as u64);

    // streaming readers (C09.e): minimal shard through a plain short Read, and through AsyncRead with Pending
    let mut sr = ShortReader::new(bytes, plan.reader_seed ^ 1, plan.reader_mode.max(1));
    match MDBMinimalShard::from_reader(&mut sr, true, true) {
        Ok(ms) => {
            let mut out = Vec::new();
            if ms.serialize(&mut out).is_ok() {
                check_serialised(rep, "C09", "minimal-sync-reader", &out, want, false);
            }
            if ms.num_files() != want.files.len() || ms.num_cas() != want.xorbs.len() {
                rep.violate("C09.e", "minimal-sync-counts", format!("minimal shard: {} files / {} xorbs, model {} / {}", ms.num_files(), ms.num_cas(), want.files.len(), want.xorbs.len()));
            }
        },
        Err(e) => rep.violate("C09.e", "minimal-sync-error", format!("{e}")),
    }
    rep.count("fault:short_reads", sr.short_reads);
    let mut ar = AsyncShortReader::new(bytes, plan.reader_seed ^ 2, plan.reader_mode.max(1), plan.pending_p);
    match futures::executor::block_on(MDBMinimalShard::from_reader_async(&mut ar, true, true)) {
        Ok(ms) => {
            let mut out = Vec::new();
            if ms.serialize(&mut out).is_ok() {
                check_serialised(rep, "C09", "minimal-async-reader", &out, want, false);
            }
        },
        Err(e) => rep.violate("C09.e", "minimal-async-error", format!("{e}")),
    }
    rep.count("fault:pending_polls", ar.pendings);
    rep.count("fault:short_reads", ar.inner.short_reads);
    // callbacks walker
    let mut nf = 0usize;
    let mut nx = 0usize;
    let mut sr = ShortReader::new(bytes, plan.reader_seed ^ 3, plan.reader_mode.max(1));
    let res = mdb_shard::streaming_shard::process_shard_stream(
        &mut sr,
        Some(|_f| {
            nf += 1;
            Ok(())
        }),
        Some(|_c| {
            nx += 1;
            Ok(())
        }),
    );
    if res.is_err() || nf != want.files.len() || nx != want.xorbs.len() {
        rep.violate("C09.e", "stream-walker", format!("process_shard_stream: {:?}, {nf} files / {nx} xorbs, model {} / {}", res.err().map(|e| e.to_string()), want.files.len(), want.xorbs.len()));
    }
    // the walker with only one of the two callbacks: the other section is passed over, the listing must be the same
    type FileCb = fn(mdb_shard::file_structs::MDBFileInfoView) -> mdb_shard::error::Result<()>;
    type CasCb = fn(mdb_shard::cas_structs::MDBCASInfoView) -> mdb_shard::error::Result<()>;
    let mut xs: Vec<(H, usize)> = Vec::new();
    let mut sr = ShortReader::new(bytes, plan.reader_seed ^ 4, plan.reader_mode.max(1));
    let res = mdb_shard::streaming_shard::process_shard_stream(
        &mut sr,
        None::<FileCb>,
        Some(|c: mdb_shard::cas_structs::MDBCASInfoView| {
            xs.push((h_of(&c.cas_hash()), c.num_entries()));
            Ok(())
        }),
    );
    let want_xs: Vec<(H, usize)> = want.xorbs.values().map(|x| (x.hash, x.chunks.len())).collect();
    xs.sort();
    if res.is_err() || xs != want_xs {
        rep.violate("C09.e", "stream-walker-xorbs-only", format!("process_shard_stream with only a xorb callback: {:?}, listed {} xorbs, model {}", res.err().map(|e| e.to_string()), xs.len(), want_xs.len()));
    }
    let mut fs: Vec<(H, usize)> = Vec::new();
    let mut sr = ShortReader::new(bytes, plan.reader_seed ^ 5, plan.reader_mode.max(1));
    let res = mdb_shard::streaming_shard::process_shard_stream(
        &mut sr,
        Some(|f: mdb_shard::file_structs::MDBFileInfoView| {
            fs.push((h_of(&f.file_hash()), f.num_entries()));
            Ok(())
        }),
        None::<CasCb>,
    );
    let want_fs: Vec<(H, usize)> = want.files.values().map(|f| (f.hash, f.segments.len())).collect();
    fs.sort();
    if res.is_err() || fs != want_fs {
        rep.violate("C09.e", "stream-walker-files-only", format!("process_shard_stream with only a file callback: {:?}, listed {} files, model {}", res.err().map(|e| e.to_string()), fs.len(), want_fs.len()));
    }
}

// ------------------------------------------------------------------------------------------------
// simulated clock for directory histories

struct DirClock {
    now: AtomicU64,
    /// milliseconds used for mtimes; may be stepped backwards (skew) or kept constant (ties)
    mtime_ms: std::sync::atomic::AtomicI64,
    mtime_step: std::sync::atomic::AtomicI64,
}

impl utils::verif::Hooks for DirClock {
    fn now_secs(&self) -> Option<u64> {
        Some(self.now.load(Ordering::SeqCst))
    }
    fn stamp_mtime(&self, path: &Path) {
        let step = self.mtime_step.load(Ordering::SeqCst);
        let t = self.mtime_ms.fetch_add(step, Ordering::SeqCst) + step;
        let t = std::time::UNIX_EPOCH + Duration::from_millis(t.max(1) as u64);
        if let Ok(f) = std::fs::OpenOptions::new().write(true).open(path) {
            let _ = f.set_modified(t);
        }
    }
}

struct DirState {
    path: PathBuf,
    mgr: Option<Arc<ShardFileManager>>,
}

fn list_shards(dir: &Path) -> Vec<(PathBuf, H, Vec<u8>)> {
    let mut out = Vec::new();
    if let Ok(rd) = std::fs::read_dir(dir) {
        for e in rd.flatten() {
            let name = e.file_name().to_string_lossy().to_string();
            if let Some(hex) = name.strip_suffix(".mdb") {
                if let Some(h) = ref_from_hex(hex) {
                    out.push((e.path(), h, std::fs::read(e.path()).unwrap_or_default()));
                }
            }
        }
    }
    out.sort();
    out
}

/// Everything retrievable from the shard files of a directory, by the independent parser; keyed shards keep their
/// records but with keyed chunk hashes, so they are reported separately.
fn dir_contents(dir: &Path) -> (ModelShard, Vec<(H, RefShard)>) {
    let mut m = ModelShard::default();
    let mut keyed = Vec::new();
    for (_, h, bytes) in list_shards(dir) {
        if let Ok(p) = ref_shard_parse(&bytes) {
            if p.footer.hmac_key == ZERO_H {
                m = union_models(&m, &model_of_parsed(&p));
            } else {
                keyed.push((h, p));
            }
        }
    }
    (m, keyed)
}

async fn run_dir_history(plan: &Plan, models: &[ModelShard], rep: &mut RunReport, focus: &str) {
    let root = scratch_dir("d");
    let _guard = ScratchGuard(root.clone());
    let clock = Arc::new(DirClock {
        now: AtomicU64::new(1_750_000_000),
        mtime_ms: std::sync::atomic::AtomicI64::new(1_750_000_000_000),
        mtime_step: std::sync::atomic::AtomicI64::new(1000),
    });
    let prev = utils::verif::install(Some(clock.clone()));
    let mut dirs: Vec<DirState> = (0..3)
        .map(|i| DirState {
            path: root.join(format!("dir{i}")),
            mgr: None,
        })
        .collect();
    for d in &dirs {
        std::fs::create_dir_all(&d.path).unwrap();
    }
    // what was ever added, per directory (for truthfulness: any xorb ever added anywhere is "known")
    let mut known_xorbs: BTreeMap<H, RefXorbRec> = BTreeMap::new();
    // records that must be retrievable from directory i (C10.d): those added/planted there
    let mut must_have: Vec<ModelShard> = vec![ModelShard::default(); 3];
    // keyed exports made: (dir, key id, flags, expiry, source model, shard hash)
    let mut exports: Vec<(u8, u8, u8, u64, ModelShard, H)> = Vec::new();
    // which of them the directory's current manager has been told about (registered directly, or the manager was
    // created / refreshed after the export was written)
    let mut visible: Vec<bool> = Vec::new();
    let mut export_paths: Vec<PathBuf> = Vec::new();
    let mut damaged_expectation = [false; 3];

    for (oi, op) in plan.ops.iter().enumerate() {
        match op {
            DirOp::Add { dir, m, flush_after } => {
                let d = *dir as usize % 3;
                let model = &models[*m as usize % models.len()];
                if dirs[d].mgr.is_none() {
                    dirs[d].mgr = ShardFileManager::new_in_session_directory(&dirs[d].path).await.ok();
                }
                let Some(mgr) = dirs[d].mgr.clone() else { continue };
                for x in model.xorbs.values() {
                    if let Err(e) = mgr.add_cas_block(to_cas_info(x)).await {
                        rep.violate("C05.a", "add-cas-block-error", format!("op {oi}: {e}"));
                    }
                    known_xorbs.entry(x.hash).or_insert_with(|| x.clone());
                }
                for f in model.files.values() {
                    if let Err(e) = mgr.add_file_reconstruction_info(to_file_info(f)).await {
                        rep.violate("C05.a", "add-file-error", format!("op {oi}: {e}"));
                    }
                }
                must_have[d] = union_models(&must_have[d], model);
                if *flush_after {
                    let _ = mgr.flush().await;
                }
                rep.count("ops:add", 1);
            },
            DirOp::Flush { dir } => {
                let d = *dir as usize % 3;
                if let Some(mgr) = &dirs[d].mgr {
                    if let Err(e) = mgr.flush().await {
                        rep.violate("C10.d", "flush-error", format!("op {oi}: {e}"));
                    }
                    rep.count("ops:flush", 1);
                }
            },
            DirOp::Plant { dir, m } => {
                let d = *dir as usize % 3;
                let model = &models[*m as usize % models.len()];
                let (_s, bytes) = serialize_model(model);
                match MDBShardFile::write_out_from_reader(&dirs[d].path, &mut Cursor::new(&bytes)) {
                    Ok(sf) => {
                        if let Some(mgr) = &dirs[d].mgr {
                            let _ = mgr.register_shards(&[sf]).await;
                        }
                        for x in model.xorbs.values() {
                            known_xorbs.entry(x.hash).or_insert_with(|| x.clone());
                        }
                        must_have[d] = union_models(&must_have[d], model);
                    },
                    Err(e) => rep.violate("C10.d", "plant-error", format!("op {oi}: {e}")),
                }
                rep.count("ops:plant", 1);
            },
            DirOp::Consolidate { dir, threshold } => {
                let d = *dir as usize % 3;
                // flush first so the directory holds everything added
                if let Some(mgr) = &dirs[d].mgr {
                    let _ = mgr.flush().await;
                }
                let before = list_shards(&dirs[d].path);
                let (before_model, before_keyed) = dir_contents(&dirs[d].path);
                let res = mdb_shard::session_directory::consolidate_shards_in_directory(&dirs[d].path, *threshold);
                rep.count("ops:consolidate", 1);
                match res {
                    Err(e) => rep.violate("C10.d", "consolidate-error", format!("op {oi} (threshold {threshold}): {e}")),
                    Ok(list) => {
                        let after = list_shards(&dirs[d].path);
                        let (after_model, _) = dir_contents(&dirs[d].path);
                        if after.len() < before.len() {
                            rep.count("probe:consolidation_merged_shards", 1);
                        }
                        // every returned shard exists and is named by the hash of its bytes
                        let mut returned: ModelShard = ModelShard::default();
                        for sf in &list {
                            match std::fs::read(&sf.path) {
                                Err(_) => rep.violate("C10.d", "returned-shard-missing", format!("op {oi}: returned shard {:?} does not exist", sf.path.file_name())),
                                Ok(b) => {
                                    let hh = ref_chunk_hash(&b);
                                    if hh != h_of(&sf.shard_hash) || sf.path.file_name().map(|n| n.to_string_lossy().to_string()) != Some(format!("{}.mdb", ref_hex(&hh))) {
                                        rep.violate("C10.d", "returned-shard-name", format!("op {oi}: returned shard {:?} is not named by the hash of its content", sf.path.file_name()));
                                    }
                                    if let Ok(p) = ref_shard_parse(&b) {
                                        if p.footer.hmac_key == ZERO_H {
                                            check_serialised(rep, "C10", "consolidated", &b, &model_of_parsed(&p), true);
                                            returned = union_models(&returned, &model_of_parsed(&p));
                                        }
                                    } else {
                                        rep.violate("C10.c", "returned-shard-unparsable", format!("op {oi}"));
                                    }
                                },
                            }
                        }
                        // the set of retrievable records is unchanged
                        if before_keyed.is_empty() {
                            if after_model.files.keys().collect::<Vec<_>>() != before_model.files.keys().collect::<Vec<_>>()
                                || after_model.xorbs != before_model.xorbs
                            {
                                let lost_f = before_model.files.keys().filter(|k| !after_model.files.contains_key(*k)).count();
                                let lost_x = before_model.xorbs.keys().filter(|k| !after_model.xorbs.contains_key(*k)).count();
                                let new_f = after_model.files.keys().filter(|k| !before_model.files.contains_key(*k)).count();
                                let new_x = after_model.xorbs.keys().filter(|k| !before_model.xorbs.contains_key(*k)).count();
                                rep.violate("C10.d", "records-changed", format!("op {oi} (threshold {threshold}, {} -> {} shards): lost {lost_f} files / {lost_x} xorbs, invented {new_f} / {new_x}", before.len(), after.len()));
                            }
                            // richer variants are never lost
                            for (h, f) in &before_model.files {
                                if let Some(g) = after_model.files.get(h) {
                                    if g != f {
                                        rep.violate("C10.d", "file-record-degraded", format!("op {oi}: file {} changed across consolidation", ref_hex(h)));
                                        break;
                                    }
                                }
                            }
                            // a deleted shard's records are all in a returned shard
                            for (p, _h, b) in &before {
                                if !p.exists() {
                                    if let Ok(ps) = ref_shard_parse(b) {
                                        let pm = model_of_parsed(&ps);
                                        let ok = pm.files.keys().all(|k| returned.files.contains_key(k)) && pm.xorbs.keys().all(|k| returned.xorbs.contains_key(k));
                                        if !ok {
                                            rep.violate("C10.d", "deleted-without-merge", format!("op {oi}: shard {:?} was deleted but not all its records are in a returned shard", p.file_name()));
                                        }
                                    }
                                }
                            }
                            // the returned list covers everything in the directory that is still valid (a shard past its
                            // expiry is not loaded, hence neither merged nor returned — and must not be deleted)
                            let now = clock.now.load(Ordering::SeqCst);
                            let mut after_valid = ModelShard::default();
                            for (_, _, bytes) in list_shards(&dirs[d].path) {
                                if let Ok(ps) = ref_shard_parse(&bytes) {
                                    if ps.footer.hmac_key == ZERO_H && ps.footer.expiry >= now {
                                        after_valid = union_models(&after_valid, &model_of_parsed(&ps));
                                    }
                                }
                            }
                            let after_model = after_valid;
                            if returned.files.len() != after_model.files.len() || returned.xorbs.len() != after_model.xorbs.len() {
                                rep.violate("C10.d", "returned-list-incomplete", format!("op {oi}: returned shards hold {} files / {} xorbs, directory holds {} / {}", returned.files.len(), returned.xorbs.len(), after_model.files.len(), after_model.xorbs.len()));
                            }
                        }
                    },
                }
                // a manager that was open on this directory now refers to deleted files: re-open it
                dirs[d].mgr = None;
            },
            DirOp::Keyed { from, to, key, flags, valid_secs } | DirOp::KeyedExternal { from, to, key, flags, valid_secs } => {
                let external = matches!(op, DirOp::KeyedExternal { .. });
                let (f, t) = (*from as usize % 3, *to as usize % 3);
                if f == t {
                    continue;
                }
                if let Some(mgr) = &dirs[f].mgr {
                    let _ = mgr.flush().await;
                }
                let kh = key_of(*key);
                for (path, _h, bytes) in list_shards(&dirs[f].path) {
                    let Ok(src) = ref_shard_parse(&bytes) else { continue };
                    if src.footer.hmac_key != ZERO_H {
                        continue;
                    }
                    let Ok(sf) = MDBShardFile::load_from_file(&path) else { continue };
                    let now = clock.now.load(Ordering::SeqCst);
                    match sf.export_as_keyed_shard(&dirs[t].path, m_of(&kh), Duration::from_secs(*valid_secs), flags & 1 != 0, flags & 2 != 0, flags & 4 != 0) {
                        Err(e) => rep.violate("C18.a", "export-error", format!("op {oi}: {e}")),
                        Ok(out) => {
                            rep.count("ops:keyed_export", 1);
                            let ob = std::fs::read(&out.path).unwrap_or_default();
                            let srcm = model_of_parsed(&src);
                            check_keyed_export(rep, &ob, &srcm, &kh, *flags, now, *valid_secs, oi);
                            check_keyed_equivalence(rep, &root, &path, &out.path, &srcm, oi, plan.query_seed ^ oi as u64).await;
                            // the upload path re-exports a shard with an expiry before it is cached: a keyed shard
                            // stays the same keyed shard (key, keyed hashes, tables, records), only the footer's times are set
                            if mix(&[plan.query_seed, oi as u64, 0xE2]) % 3 == 0 {
                                let rd = root.join(format!("re-export-{oi}"));
                                let _ = std::fs::create_dir_all(&rd);
                                match out.export_with_expiration(&rd, Duration::from_secs(*valid_secs)) {
                                    Ok(o2) => {
                                        let b2 = std::fs::read(&o2.path).unwrap_or_default();
                                        let before = rep.violations.len();
                                        check_keyed_export(rep, &b2, &srcm, &kh, *flags, now, *valid_secs, oi);
                                        for v in rep.violations.iter_mut().skip(before) {
                                            v.site = format!("re-export-with-expiry:{}", v.site);
                                        }
                                        check_keyed_equivalence(rep, &root, &path, &o2.path, &srcm, oi, plan.query_seed ^ oi as u64 ^ 0xE2).await;
                                        rep.count("ops:keyed_export_re-exported_with_expiry", 1);
                                    },
                                    Err(e) => rep.violate("C18.a", "re-export-with-expiry:error", format!("op {oi}: {e}")),
                                }
                            }
                            exports.push((t as u8, *key, *flags, now.saturating_add(*valid_secs), srcm.clone(), h_of(&out.shard_hash)));
                            export_paths.push(out.path.clone());
                            for x in srcm.xorbs.values() {
                                known_xorbs.entry(x.hash).or_insert_with(|| x.clone());
                            }
                            let mut seen = false;
                            if !external {
                                if let Some(mgr) = &dirs[t].mgr {
                                    seen = mgr.register_shards(&[out]).await.is_ok();
                                }
                            } else {
                                rep.count("ops:keyed_export_by_another_process", 1);
                            }
                            visible.push(seen);
                        },
                    }
                }
            },
            DirOp::Reopen { dir } => {
                let d = *dir as usize % 3;
                if let Some(mgr) = &dirs[d].mgr {
                    let _ = mgr.flush().await;
                }
                dirs[d].mgr = None;
                let now = clock.now.load(Ordering::SeqCst);
                match ShardFileManager::new_in_session_directory(&dirs[d].path).await {
                    Ok(m) => {
                        // C18.d: nothing past its expiry is loaded
                        if let Ok(list) = m.registered_shard_list().await {
                            for s in list {
                                if s.shard.metadata.shard_key_expiry < now {
                                    rep.violate("C18.d", "expired-shard-loaded", format!("op {oi}: shard with expiry {} loaded at time {now}", s.shard.metadata.shard_key_expiry));
                                }
                            }
                        }
                        dirs[d].mgr = Some(m);
                        for (k, e) in exports.iter().enumerate() {
                            if e.0 as usize == d {
                                visible[k] = true;
                            }
                        }
                    },
                    Err(e) => rep.violate("C10.d", "reopen-error", format!("op {oi}: {e}")),
                }
                rep.count("ops:reopen", 1);
            },
            DirOp::Refresh { dir } => {
                let d = *dir as usize % 3;
                if let Some(mgr) = dirs[d].mgr.clone() {
                    match mgr.refresh_shard_dir().await {
                        Ok(()) => {
                            for (k, e) in exports.iter().enumerate() {
                                if e.0 as usize == d {
                                    visible[k] = true;
                                }
                            }
                            rep.count("ops:refresh_of_a_live_manager", 1);
                        },
                        Err(e) => rep.violate("C10.d", "refresh-error", format!("op {oi}: {e}")),
                    }
                }
            },
            DirOp::ExportWithExpiry { dir, pick, valid_secs } => {
                let d = *dir as usize % 3;
                if let Some(mgr) = &dirs[d].mgr {
                    let _ = mgr.flush().await;
                }
                let list: Vec<_> = list_shards(&dirs[d].path).into_iter().filter(|(_, _, b)| ref_shard_parse(b).map(|p| p.footer.hmac_key == ZERO_H).unwrap_or(false)).collect();
                if !list.is_empty() {
                    let (path, _h, _b) = &list[(*pick % list.len() as u64) as usize];
                    if let Ok(sf) = MDBShardFile::load_from_file(path) {
                        if let Ok(out) = sf.export_with_expiration(&dirs[d].path, Duration::from_secs(*valid_secs)) {
                            rep.count("ops:unkeyed_export_with_expiry", 1);
                            // the expiring copy becomes the only holder of these records (as in a shard cache)
                            if out.path != *path {
                                let _ = std::fs::remove_file(path);
                                dirs[d].mgr = None;
                                damaged_expectation[d] = true;
                            }
                        }
                    }
                }
            },
            DirOp::RegisterByPath { dir, pick } => {
                let d = *dir as usize % 3;
                let cands: Vec<usize> = (0..exports.len()).filter(|&k| exports[k].0 as usize == d && export_paths[k].exists()).collect();
                if let (Some(mgr), false) = (dirs[d].mgr.clone(), cands.is_empty()) {
                    let k = cands[(*pick % cands.len() as u64) as usize];
                    let now = clock.now.load(Ordering::SeqCst);
                    let h = m_of(&exports[k].5);
                    let before = mgr.shard_is_registered(&h).await;
                    let r = mgr.register_shards_by_path(&[export_paths[k].clone()]).await;
                    let after = mgr.shard_is_registered(&h).await;
                    if exports[k].3 < now {
                        // C18.d: a shard past its expiry is not loaded, however it is named
                        if !before && after {
                            rep.violate("C18.d", "expired-shard-registered-by-path", format!("op {oi}: shard with expiry {} registered by its file path at time {now}", exports[k].3));
                        }
                        rep.count("probe:expired_shard_offered_by_path", 1);
                    } else if r.is_ok() && after {
                        visible[k] = true;
                    }
                }
            },
            DirOp::AdvanceClock { secs } => {
                clock.now.fetch_add(*secs, Ordering::SeqCst);
                rep.count("fault:clock_jump", 1);
            },
            DirOp::MtimeStep { ms } => {
                clock.mtime_step.store(*ms, Ordering::SeqCst);
                rep.count(if *ms == 0 { "fault:mtime_ties" } else if *ms < 0 { "fault:mtime_reversed" } else { "fault:mtime_step" }, 1);
            },
            DirOp::CleanExpired { dir, grace } => {
                let d = *dir as usize % 3;
                let before = list_shards(&dirs[d].path);
                let now = clock.now.load(Ordering::SeqCst);
                let _ = MDBShardFile::clean_expired_shards(&dirs[d].path, *grace);
                for (p, _h, b) in &before {
                    if !p.exists() {
                        if let Ok(ps) = ref_shard_parse(b) {
                            rep.count("probe:expired_shard_deleted", 1);
                            if ps.footer.expiry.saturating_add(*grace) > now {
                                rep.violate("C18.d", "deleted-before-grace", format!("op {oi}: shard with expiry {} deleted at {now} with grace {grace}", ps.footer.expiry));
                            }
                            damaged_expectation[d] = true;
                        }
                    }
                }
                dirs[d].mgr = None;
            },
            DirOp::Query { dir, seed, n } => {
                let d = *dir as usize % 3;
                if dirs[d].mgr.is_none() {
                    dirs[d].mgr = ShardFileManager::new_in_session_directory(&dirs[d].path).await.ok();
                    if dirs[d].mgr.is_some() {
                        for (k, e) in exports.iter().enumerate() {
                            if e.0 as usize == d {
                                visible[k] = true;
                            }
                        }
                    }
                }
                let Some(mgr) = dirs[d].mgr.clone() else { continue };
                let mut qr = Rng::new(*seed);
                let now = clock.now.load(Ordering::SeqCst);
                for q in gen_queries(&mut qr, &known_xorbs, *n as usize) {
                    let mq: Vec<MerkleHash> = q.iter().map(m_of).collect();
                    match mgr.chunk_hash_dedup_query(&mq).await {
                        Ok(Some(ans)) => {
                            rep.count("probe:manager_hits", 1);
                            check_dedup_answer(rep, "C05.a", "manager", &known_xorbs, &q, &ans, &format!("op {oi} dir {d}"));
                        },
                        Ok(None) => {
                            rep.count("probe:manager_misses", 1);
                            // C18.c (completeness through a manager holding shards under several keys): if a live keyed
                            // export in this directory holds the first chunk, and no other chunk of a live export here
                            // shares its plain truncated prefix, the unkeyed query must hit
                            if focus == "C18" && !damaged_expectation[d] {
                                let live: Vec<&ModelShard> = exports.iter().enumerate().filter(|(k, e)| e.0 as usize == d && e.3 >= now && visible[*k]).map(|(_, e)| &e.4).collect();
                                let occurrences: usize = live.iter().map(|m| m.xorbs.values().map(|x| x.chunks.iter().filter(|c| c.0 == q[0]).count()).sum::<usize>()).sum();
                                let clash: usize = live.iter().map(|m| m.xorbs.values().map(|x| x.chunks.iter().filter(|c| c.0 != q[0] && trunc(&c.0) == trunc(&q[0])).count()).sum::<usize>()).sum();
                                if occurrences >= 1 && clash == 0 {
                                    let keys: std::collections::BTreeSet<u8> = exports.iter().filter(|e| e.0 as usize == d && e.3 >= now).map(|e| e.1).collect();
                                    rep.violate(
                                        "C18.c",
                                        "manager-miss-for-live-keyed-shard",
                                        format!("op {oi} dir {d}: the first query chunk {} is held by a live keyed export registered in this manager ({} key(s) in the directory), yet the unkeyed query misses", ref_hex(&q[0]), keys.len()),
                                    );
                                }
                                rep.count("probe:keyed_completeness_checked", (occurrences >= 1) as u64);
                            }
                        },
                        Err(e) => rep.violate("C05.a", "manager-query-error", format!("op {oi}: {e}")),
                    }
                }
                // files added to this directory stay retrievable (C10.d through the manager)
                if !damaged_expectation[d] {
                    let fk: Vec<&H> = must_have[d].files.keys().collect();
                    for _ in 0..fk.len().min(10) {
                        let h = fk[qr.usize_below(fk.len())];
                        match mgr.get_file_reconstruction_info(&m_of(h)).await {
                            Ok(Some((fi, _))) => {
                                let got = from_file_info(&fi);
                                let want = &must_have[d].files[h];
                                if got.segments != want.segments {
                                    rep.violate("C10.d", "manager-file-record", format!("op {oi}: file {} retrieved with different segments", ref_hex(h)));
                                }
                            },
                            Ok(None) => rep.violate("C10.d", "manager-file-lost", format!("op {oi} dir {d}: file {} added earlier is no longer retrievable", ref_hex(h))),
                            Err(e) => rep.violate("C10.d", "manager-file-error", format!("op {oi}: {e}")),
                        }
                    }
                }
            },
        }
    }
    utils::verif::install(prev);
}

/// C18.c: a manager over only the keyed export answers unkeyed dedup queries like a manager over only the original.
async fn check_keyed_equivalence(rep: &mut RunReport, root: &Path, orig: &Path, keyed: &Path, src: &ModelShard, oi: usize, seed: u64) {
    static N: AtomicU64 = AtomicU64::new(0);
    let n = N.fetch_add(1, Ordering::Relaxed);
    let da = root.join(format!("eq{n}-orig"));
    let db = root.join(format!("eq{n}-keyed"));
    let _ = std::fs::create_dir_all(&da);
    let _ = std::fs::create_dir_all(&db);
    if std::fs::copy(orig, da.join(orig.file_name().unwrap())).is_err() || std::fs::copy(keyed, db.join(keyed.file_name().unwrap())).is_err() {
        return;
    }
    let (Ok(ma), Ok(mb)) = (ShardFileManager::new_in_session_directory(&da).await, ShardFileManager::new_in_session_directory(&db).await) else {
        rep.violate("C18.c", "manager-open", format!("op {oi}: cannot open managers over the original/keyed shard"));
        return;
    };
    let mut rng = Rng::new(seed);
    for q in gen_queries(&mut rng, &src.xorbs, 10) {
        let mq: Vec<MerkleHash> = q.iter().map(m_of).collect();
        let (ra, rb) = (ma.chunk_hash_dedup_query(&mq).await, mb.chunk_hash_dedup_query(&mq).await);
        let (Ok(ra), Ok(rb)) = (ra, rb) else {
            rep.violate("C18.c", "query-error", format!("op {oi}: query failed on the original or the keyed shard"));
            continue;
        };
        if let Some(a) = &rb {
            check_dedup_answer(rep, "C18.c", "keyed-answer", &src.xorbs, &q, a, &format!("op {oi} keyed-only manager"));
        }
        // unambiguous first chunk: occurs once in the source and shares its truncated prefix (plain or keyed form is
        // not known to the oracle, so only the plain prefix is considered and ambiguity there is skipped) with no other
        let occurrences: usize = src.xorbs.values().map(|x| x.chunks.iter().filter(|c| c.0 == q[0]).count()).sum();
        let clash: usize = src.xorbs.values().map(|x| x.chunks.iter().filter(|c| c.0 != q[0] && trunc(&c.0) == trunc(&q[0])).count()).sum();
        if occurrences <= 1 && clash == 0 {
            rep.count("probe:keyed_equivalence_compared", 1);
            match (&ra, &rb) {
                (Some(a), None) => rep.violate("C18.c", "keyed-miss", format!("op {oi}: original answers ({} chunks of xorb {}) but the keyed export misses", a.0, ref_hex(&h_of(&a.1.cas_hash)))),
                (None, Some(_)) => rep.violate("C18.c", "keyed-extra-hit", format!("op {oi}: keyed export answers a query the original misses")),
                (Some(a), Some(b)) => {
                    if a.0 != b.0 || a.1 != b.1 {
                        rep.violate("C18.c", "keyed-different-answer", format!("op {oi}: original {:?} vs keyed {:?}", (a.0, a.1.chunk_index_start, a.1.chunk_index_end), (b.0, b.1.chunk_index_start, b.1.chunk_index_end)));
                    }
                },
                (None, None) => {},
            }
        }
    }
}

/// C18.a/b on the bytes of one keyed export.
fn check_keyed_export(rep: &mut RunReport, bytes: &[u8], src: &ModelShard, key: &H, flags: u8, now: u64, valid: u64, oi: usize) {
    let p = match ref_shard_parse(bytes) {
        Ok(p) => p,
        Err(e) => {
            rep.violate("C18.a", "export-unparsable", format!("op {oi}: {e}"));
            return;
        },
    };
    let keyed = *key != ZERO_H;
    if p.footer.hmac_key != *key {
        rep.violate("C18.a", "footer-key", format!("op {oi}: footer key differs from the export key"));
    }
    if p.footer.expiry != now.saturating_add(valid) || p.footer.creation != now {
        rep.violate("C18.d", "export-timestamps", format!("op {oi}: creation {} expiry {} at time {now} with validity {valid}", p.footer.creation, p.footer.expiry));
    }
    // xorb records: same hashes, chunk hashes keyed
    let got = model_of_parsed(&p);
    if got.xorbs.keys().collect::<Vec<_>>() != src.xorbs.keys().collect::<Vec<_>>() {
        rep.violate("C18.a", "xorb-set", format!("op {oi}: exported xorb hashes differ from the source ({} vs {})", got.xorbs.len(), src.xorbs.len()));
        return;
    }
    let mut raw_seen = false;
    for (h, x) in &src.xorbs {
        let g = &got.xorbs[h];
        if g.chunks.len() != x.chunks.len() {
            rep.violate("C18.a", "chunk-count", format!("op {oi}: xorb {} has {} chunks after export, {} before", ref_hex(h), g.chunks.len(), x.chunks.len()));
            continue;
        }
        for (gc, xc) in g.chunks.iter().zip(x.chunks.iter()) {
            let want = if keyed { ref_hmac(&xc.0, key) } else { xc.0 };
            if gc.0 != want || gc.1 != xc.1 || gc.2 != xc.2 {
                rep.violate("C18.a", "chunk-hash-not-keyed", format!("op {oi}: a chunk entry of xorb {} is not the keyed form of the source entry", ref_hex(h)));
                if keyed && gc.0 == xc.0 {
                    raw_seen = true;
                }
                break;
            }
        }
    }
    if raw_seen {
        rep.violate("C18.a", "raw-chunk-hash-exposed", format!("op {oi}: an original chunk hash occurs in the keyed export"));
    }
    // file records present iff requested
    if flags & 1 != 0 {
        if got.files != src.files {
            rep.violate("C18.b", "file-records", format!("op {oi}: file records requested but exported {} of {} (or altered)", got.files.len(), src.files.len()));
        }
    } else if !got.files.is_empty() {
        rep.violate("C18.b", "file-records-present", format!("op {oi}: {} file records exported although not requested", got.files.len()));
    }
    // lookup tables present iff requested, and built from keyed hashes
    let n_chunks: usize = src.xorbs.values().map(|x| x.chunks.len()).sum();
    if flags & 4 != 0 {
        let mut want: Vec<(u64, u32, u32)> = Vec::new();
        for (x, i) in p.xorbs.iter().zip(p.xorb_index.iter()) {
            for (j, c) in x.chunks.iter().enumerate() {
                want.push((trunc(&c.0), *i, j as u32));
            }
        }
        let mut g = p.chunk_lookup.clone();
        if !g.windows(2).all(|w| w[0].0 <= w[1].0) {
            rep.violate("C18.a", "chunk-table-order", format!("op {oi}: chunk table of the export is not sorted"));
        }
        want.sort();
        g.sort();
        if want != g {
            rep.violate("C18.a", "chunk-table-keys", format!("op {oi}: chunk table ({} entries) is not the table of the keyed chunk hashes ({n_chunks})", g.len()));
        }
    } else if !p.chunk_lookup.is_empty() {
        rep.violate("C18.b", "chunk-table-present", format!("op {oi}: chunk table exported although not requested"));
    }
    if flags & 2 != 0 {
        let want: Vec<(u64, u32)> = p.xorbs.iter().zip(p.xorb_index.iter()).map(|(x, i)| (trunc(&x.hash), *i)).collect();
        if p.cas_lookup != want {
            rep.violate("C18.a", "cas-table", format!("op {oi}: xorb lookup table wrong ({} entries)", p.cas_lookup.len()));
        }
    } else if !p.cas_lookup.is_empty() {
        rep.violate("C18.b", "cas-table-present", format!("op {oi}: xorb table exported although not requested"));
    }
    if flags & 1 != 0 && (flags & 6 != 0) {
        let want: Vec<(u64, u32)> = p.files.iter().zip(p.file_index.iter()).map(|(f, i)| (trunc(&f.hash), *i)).collect();
        if !p.file_lookup.is_empty() && p.file_lookup != want {
            rep.violate("C18.a", "file-table", format!("op {oi}: file lookup table wrong"));
        }
    }
    rep.count("keyed_exports_checked", 1);
}

// ------------------------------------------------------------------------------------------------
// generation

fn gen_spec(rng: &mut Rng, big: bool) -> ShardSpec {
    let (nf, nx, mc) = if big {
        (rng.log_range(0, 700) as u32, rng.log_range(1, 60) as u32, rng.log_range(1, 3000) as u32)
    } else {
        (rng.log_range(0, 12) as u32, rng.log_range(0, 8) as u32, rng.log_range(1, 40) as u32)
    };
    ShardSpec {
        seed: rng.next_u64(),
        n_files: if rng.chance(1, 12) { 0 } else { nf },
        n_xorbs: if rng.chance(1, 12) { 0 } else { nx },
        max_chunks: mc,
        hash_style: rng.below(4) as u32,
        flags_mode: rng.below(5) as u32,
        dup_chunks: *rng.pick(&[0u32, 0, 2, 8]),
        overlap_first: None,
        zero_byte_only: !big && rng.chance(1, 12),
        offsets_style: *rng.pick(&[0u32, 0, 0, 0, 1, 2]),
    }
}

fn gen(seed: u64, run: u64, focus: &str, tier: Tier) -> Plan {
    let mut rng = Rng::stream(seed, run, "shard");
    let mode = match focus {
        "C09" => "format",
        "C05" => {
            if rng.chance(1, 4) {
                "deduper"
            } else if rng.chance(1, if tier == Tier::Quick { 400 } else { 150 }) {
                "giant"
            } else {
                "dedup"
            }
        },
        "C10" => "setops",
        _ => "keyed",
    };
    let mut specs = Vec::new();
    let mut ops = Vec::new();
    match mode {
        "format" => {
            let big = rng.chance(1, if tier == Tier::Quick { 6 } else { 3 });
            specs.push(gen_spec(&mut rng, big));
        },
        "dedup" | "deduper" | "giant" => {
            let n = rng.range(1, 3);
            for _ in 0..n {
                let big = rng.chance(1, 10);
                let mut s = gen_spec(&mut rng, big);
                s.n_xorbs = s.n_xorbs.max(1);
                s.dup_chunks = *rng.pick(&[0u32, 2, 8, 12]);
                specs.push(s);
            }
        },
        _ => {
            let n = rng.range(2, 4);
            for i in 0..n {
                let mut s = gen_spec(&mut rng, false);
                // overlapping / identical contents: later models share a subset of model 0's records
                if i > 0 && rng.chance(2, 3) {
                    s.overlap_first = Some((rng.next_u64(), *rng.pick(&[4u32, 8, 12, 16])));
                    if rng.chance(1, 4) {
                        // identical to (a subset of) model 0: no records of its own
                        s.n_files = 0;
                        s.n_xorbs = 0;
                    }
                }
                specs.push(s);
            }
        },
    }
    let mut dd = None;
    if mode == "deduper" {
        for s in specs.iter_mut() {
            s.n_xorbs = s.n_xorbs.min(12);
            s.max_chunks = s.max_chunks.min(40);
            s.n_files = 0;
        }
        dd = Some(DeduperPlan {
            seed: rng.next_u64(),
            n_chunks: rng.log_range(1, if tier == Tier::Quick { 120 } else { 400 }) as u32,
            pool: *rng.pick(&[1u32, 2, 3, 5, 8, 30]),
            batch_max: *rng.pick(&[1u32, 2, 3, 7, 1000]),
            late_shard: rng.chance(1, 2),
            index_new_xorbs: rng.chance(1, 2),
        });
    }
    if mode == "giant" {
        specs.clear();
    }
    if mode != "format" && mode != "deduper" && mode != "giant" {
        let n_ops = rng.range(3, if tier == Tier::Quick { 10 } else { 16 }) as usize;
        let ns = specs.len() as u64;
        for _ in 0..n_ops {
            let w: [u32; 10] = match mode {
                "dedup" => [5, 2, 2, 2, 2, 2, 1, 1, 0, 6],
                "setops" => [5, 2, 3, 6, 0, 2, 0, 3, 0, 3],
                _ => [4, 1, 1, 1, 6, 3, 4, 1, 3, 5],
            };
            let op = match rng.weighted(&w) {
                0 => DirOp::Add { dir: rng.below(2) as u8, m: rng.below(ns) as u8, flush_after: rng.chance(1, 2) },
                1 => DirOp::Flush { dir: rng.below(2) as u8 },
                2 => DirOp::Plant { dir: rng.below(2) as u8, m: rng.below(ns) as u8 },
                3 => DirOp::Consolidate { dir: rng.below(2) as u8, threshold: *rng.pick(&[0u64, 400, 1000, 3000, 10_000, 100_000, 64 << 20]) },
                4 => DirOp::Keyed { from: rng.below(2) as u8, to: 2, key: rng.below(5) as u8, flags: rng.below(8) as u8, valid_secs: *rng.pick(&[0u64, 1, 10, 1000, 100_000]) },
                5 => DirOp::Reopen { dir: rng.below(3) as u8 },
                6 => DirOp::AdvanceClock { secs: *rng.pick(&[0u64, 1, 9, 10, 11, 999, 1000, 1001, 100_000, 1_000_000]) },
                7 => DirOp::MtimeStep { ms: *rng.pick(&[0i64, 0, 1, 1000, -1000, -1]) },
                8 => DirOp::CleanExpired { dir: 2, grace: *rng.pick(&[0u64, 1, 10, 1000]) },
                _ => DirOp::Query { dir: rng.below(3) as u8, seed: rng.next_u64(), n: rng.range(2, 12) as u32 },
            };
            ops.push(op);
        }
        if mode == "keyed" {
            let mut pre = Vec::new();
            for _ in 0..rng.range(1, 3) {
                pre.push(DirOp::Add { dir: rng.below(2) as u8, m: rng.below(ns) as u8, flush_after: true });
            }
            pre.extend(ops.drain(..));
            ops = pre;
            for _ in 0..rng.range(1, 3) {
                ops.push(DirOp::Keyed { from: rng.below(2) as u8, to: 2, key: rng.below(5) as u8, flags: rng.below(8) as u8, valid_secs: *rng.pick(&[0u64, 1, 10, 1000, 100_000]) });
                if rng.chance(1, 2) {
                    ops.push(DirOp::AdvanceClock { secs: *rng.pick(&[0u64, 1, 9, 10, 11, 999, 1000, 1001, 100_000]) });
                }
                if rng.chance(1, 3) {
                    ops.push(DirOp::CleanExpired { dir: 2, grace: *rng.pick(&[0u64, 1, 10, 1000]) });
                }
                ops.push(DirOp::Reopen { dir: 2 });
                ops.push(DirOp::Query { dir: 2, seed: rng.next_u64(), n: 6 });
            }
            // a long-lived manager of the export directory: shards expire or are cleaned up, another process adds
            // shards, the manager rescans; a shard is also handed to it by its own file path
            if rng.chance(1, 2) {
                for _ in 0..rng.range(1, 3) {
                    match rng.below(4) {
                        0 => ops.push(DirOp::AdvanceClock { secs: *rng.pick(&[2u64, 11, 1001]) }),
                        1 => ops.push(DirOp::CleanExpired { dir: 2, grace: *rng.pick(&[0u64, 1, 10]) }),
                        _ => {},
                    }
                    for _ in 0..rng.range(1, 2) {
                        ops.push(DirOp::KeyedExternal { from: rng.below(2) as u8, to: 2, key: rng.below(5) as u8, flags: rng.below(8) as u8, valid_secs: *rng.pick(&[0u64, 1, 1000, 100_000]) });
                    }
                    if rng.chance(1, 3) {
                        ops.push(DirOp::AdvanceClock { secs: *rng.pick(&[1u64, 2, 11]) });
                    }
                    if rng.chance(1, 2) {
                        ops.push(DirOp::RegisterByPath { dir: 2, pick: rng.next_u64() });
                    }
                    ops.push(DirOp::Refresh { dir: 2 });
                    ops.push(DirOp::Query { dir: 2, seed: rng.next_u64(), n: 6 });
                }
            }
        }
        if mode == "setops" {
            // bursts: several shards land in one directory, then it is consolidated and queried
            let mut bursts = Vec::new();
            for _ in 0..rng.range(1, 3) {
                let d = rng.below(2) as u8;
                if rng.chance(1, 2) {
                    bursts.push(DirOp::MtimeStep { ms: *rng.pick(&[0i64, 1, 1000, -1000]) });
                }
                for _ in 0..rng.range(2, 5) {
                    if rng.chance(1, 2) {
                        bursts.push(DirOp::Add { dir: d, m: rng.below(ns) as u8, flush_after: true });
                    } else {
                        bursts.push(DirOp::Plant { dir: d, m: rng.below(ns) as u8 });
                    }
                }
                if rng.chance(1, 4) {
                    // a shard with an expiry in the directory, possibly past it when the consolidation runs
                    bursts.push(DirOp::ExportWithExpiry { dir: d, pick: rng.next_u64(), valid_secs: *rng.pick(&[0u64, 1, 10, 100_000]) });
                    bursts.push(DirOp::AdvanceClock { secs: *rng.pick(&[0u64, 2, 11, 1001]) });
                }
                bursts.push(DirOp::Consolidate { dir: d, threshold: *rng.pick(&[0u64, 1500, 4000, 10_000, 30_000, 64 << 20]) });
                bursts.push(DirOp::Query { dir: d, seed: rng.next_u64(), n: 6 });
            }
            if rng.chance(1, 2) {
                bursts.extend(ops.drain(..));
            }
            ops = bursts;
        }
        ops.push(DirOp::Query { dir: rng.below(3) as u8, seed: rng.next_u64(), n: 8 });
    }
    Plan {
        mode: mode.to_string(),
        specs,
        reader_seed: rng.next_u64(),
        reader_mode: rng.below(3) as u32,
        pending_p: *rng.pick(&[0u64, 2, 8]),
        reinsert: if rng.chance(1, 4) { rng.range(1, 3) as u32 } else { 0 },
        ops,
        query_seed: rng.next_u64(),
        dd,
    }
}

// ------------------------------------------------------------------------------------------------

fn run_format(p: &Plan, rep: &mut RunReport) {
    let model = gen_model(&p.specs[0]);
    let mut s = if p.reinsert > 0 {
        // a record replaced by a later one with the same hash: some files are first added in another shape (flags
        // toggled: verification / metadata entries dropped or added, a segment dropped) and then added again as the
        // model has them — the last record wins and the accounting must follow it
        let mut s = MDBInMemoryShard::default();
        let mut rr = Rng::new(p.query_seed ^ 0x5eed);
        for f in model.files.values() {
            if !rr.chance(1, 3) {
                continue;
            }
            let mut v = f.clone();
            match rr.below(4) {
                0 => {
                    v.flags ^= FLAG_VERIFICATION;
                    v.verification = if v.flags & FLAG_VERIFICATION != 0 { v.segments.iter().map(|g| g.xorb).collect() } else { Vec::new() };
                },
                1 => {
                    v.flags ^= FLAG_METADATA_EXT;
                    v.sha256 = if v.flags & FLAG_METADATA_EXT != 0 { Some(v.hash) } else { None };
                },
                2 => {
                    v.flags &= !(FLAG_VERIFICATION | FLAG_METADATA_EXT);
                    v.verification.clear();
                    v.sha256 = None;
                    v.segments.truncate(v.segments.len() / 2);
                },
                _ => {
                    if let Some(g) = v.segments.first().cloned() {
                        let x = g.xorb;
                        v.segments.push(g);
                        if v.flags & FLAG_VERIFICATION != 0 {
                            v.verification.push(x);
                        }
                    }
                },
            }
            if v != *f {
                s.add_file_reconstruction_info(to_file_info(&v)).unwrap();
                rep.count("probe:file_record_replaced_by_other_shape", 1);
            }
        }
        for x in model.xorbs.values() {
            s.add_cas_block(to_cas_info(x)).unwrap();
        }
        for f in model.files.values() {
            s.add_file_reconstruction_info(to_file_info(f)).unwrap();
        }
        s
    } else {
        to_in_memory(&model)
    };
    // re-insertion of identical records (the session layer does this when two files cut the same xorb)
    if p.reinsert > 0 {
        let mut rr = Rng::new(p.query_seed);
        for _ in 0..p.reinsert {
            if let Some(x) = model.xorbs.values().nth(rr.usize_below(model.xorbs.len().max(1))) {
                s.add_cas_block(to_cas_info(x)).unwrap();
                rep.count("probe:identical_xorb_reinserted", 1);
            }
            if let Some(f) = model.files.values().nth(rr.usize_below(model.files.len().max(1))) {
                s.add_file_reconstruction_info(to_file_info(f)).unwrap();
            }
        }
    }
    let mut bytes = Vec::new();
    if let Err(e) = MDBShardInfo::serialize_from(&mut bytes, &s) {
        rep.violate("C09.a", "serialize-error", format!("{e}"));
        return;
    }
    if s.shard_file_size() != bytes.len() as u64 {
        rep.violate(
            "C09.d",
            if p.reinsert > 0 { "size-estimate-after-reinsertion" } else { "size-estimate" },
            format!("in-memory shard_file_size() {} but the serialised shard has {} bytes ({} files, {} xorbs, reinsert {})", s.shard_file_size(), bytes.len(), model.files.len(), model.xorbs.len(), p.reinsert),
        );
    }
    if (s.stored_bytes(), s.stored_bytes_on_disk(), s.materialized_bytes())
        != (
            model.xorbs.values().map(|x| x.num_bytes as u64).sum::<u64>(),
            model.xorbs.values().map(|x| x.num_bytes_on_disk as u64).sum::<u64>(),
            model.files.values().flat_map(|f| f.segments.iter()).map(|g| g.bytes as u64).sum::<u64>(),
        )
    {
        rep.violate("C09.d", "in-memory-totals", "in-memory byte totals differ from the records added".into());
    }
    check_serialised(rep, "C09", "serialize_from", &bytes, &model, true);
    let mut rng = Rng::new(p.query_seed);
    check_lookups(rep, &bytes, &model, p, &mut rng);
    // in-memory lookups agree
    for (h, f) in model.files.iter().take(50) {
        match s.get_file_reconstruction_info(&m_of(h)) {
            Some(fi) if from_file_info(&fi) == *f => {},
            _ => rep.violate("C09.a", "in-memory-file-lookup", format!("file {}", ref_hex(h))),
        }
    }
    let max_prefix_group = {
        let mut c: HashMap<u64, usize> = HashMap::new();
        for h in model.files.keys().chain(model.xorbs.keys()) {
            *c.entry(trunc(h)).or_insert(0) += 1;
        }
        c.values().copied().max().unwrap_or(0)
    };
    rep.count("probe:prefix_collision_groups_queried", (max_prefix_group >= 2) as u64);
    let tbl = model.files.len().max(model.xorbs.len()).max(model.xorbs.values().map(|x| x.chunks.len()).sum());
    rep.nontrivial = tbl > 256 || max_prefix_group >= 2;
    rep.signature = mix(&[p.specs[0].seed, p.reader_seed, p.reader_mode as u64, tbl as u64]);
    rep.count("records_checked", (model.files.len() + model.xorbs.len()) as u64);
}

fn run_direct_dedup(p: &Plan, models: &[ModelShard], rep: &mut RunReport) {
    // in-memory index and on-disk shard info, per model and for the union of all
    let mut all = ModelShard::default();
    for m in models {
        all = union_models(&all, m);
    }
    let mut rng = Rng::new(p.query_seed);
    for (mi, m) in models.iter().chain(std::iter::once(&all)).enumerate() {
        let (s, bytes) = serialize_model(m);
        let queries = gen_queries(&mut rng, &all.xorbs, 30);
        let mut r = ShortReader::new(&bytes, p.reader_seed ^ mi as u64, p.reader_mode);
        let Ok(info) = MDBShardInfo::load_from_reader(&mut r) else {
            rep.violate("C05.a", "load", "load_from_reader failed".into());
            continue;
        };
        for q in &queries {
            let mq: Vec<MerkleHash> = q.iter().map(m_of).collect();
            if let Some(ans) = s.chunk_hash_dedup_query(&mq) {
                rep.count("probe:in_memory_hits", 1);
                check_dedup_answer(rep, "C05.a", "in-memory", &m.xorbs, q, &ans, &format!("model {mi}"));
            }
            match info.chunk_hash_dedup_query(&mut r, &mq) {
                Ok(Some(ans)) => {
                    rep.count("probe:on_disk_hits", 1);
                    check_dedup_answer(rep, "C05.a", "on-disk", &m.xorbs, q, &ans, &format!("model {mi}"));
                    let past_end = (ans.1.chunk_index_end as usize) < ans.1.chunk_index_start as usize + q.len();
                    rep.count("probe:query_longer_than_match", past_end as u64);
                },
                Ok(None) => {},
                Err(e) => rep.violate("C05.a", "on-disk-query-error", format!("{e}")),
            }
            let clash = m.xorbs.values().flat_map(|x| x.chunks.iter()).any(|c| c.0 != q[0] && trunc(&c.0) == trunc(&q[0]));
            rep.count("probe:colliding_prefix_consulted", clash as u64);
        }
        rep.count("fault:short_reads", r.short_reads);
    }
}

/// A writer that fails after a given number of bytes (a full disk).
struct FailingWriter {
    left: usize,
}

impl std::io::Write for FailingWriter {
    fn write(&mut self, buf: &[u8]) -> std::io::Result<usize> {
        if self.left == 0 {
            return Err(std::io::Error::new(std::io::ErrorKind::Other, "xsim: no space left"));
        }
        let n = buf.len().min(self.left);
        self.left -= n;
        Ok(n)
    }
    fn flush(&mut self) -> std::io::Result<()> {
        Ok(())
    }
}

fn run_setops_direct(p: &Plan, models: &[ModelShard], rep: &mut RunReport) {
    // fault history (one run in three): an earlier set operation on this thread failed midway — its output ran out of
    // space, or one input ended early; whatever it returned, the operations below must be unaffected
    if mix(&[p.query_seed, 0xfa11]) % 3 == 0 && models.len() >= 2 {
        let (_s0, b0) = serialize_model(&models[0]);
        let (_s1, b1) = serialize_model(&models[1]);
        if let (Ok(i0), Ok(i1)) = (MDBShardInfo::load_from_reader(&mut Cursor::new(&b0)), MDBShardInfo::load_from_reader(&mut Cursor::new(&b1))) {
            let _ = take_last_panic();
            let r = std::panic::catch_unwind(|| {
                if mix(&[p.query_seed, 1]) % 2 == 0 {
                    let mut w = FailingWriter { left: (mix(&[p.query_seed, 2]) % (b0.len() as u64 + b1.len() as u64 + 1)) as usize };
                    let _ = mdb_shard::set_operations::shard_set_union(&i0, &mut Cursor::new(&b0), &i1, &mut Cursor::new(&b1), &mut w);
                } else {
                    let cut = (mix(&[p.query_seed, 3]) % (b1.len() as u64 + 1)) as usize;
                    let mut out = Vec::new();
                    let _ = mdb_shard::set_operations::shard_set_difference(&i0, &mut Cursor::new(&b0[..]), &i1, &mut Cursor::new(&b1[..cut]), &mut out);
                }
            });
            if r.is_err() {
                rep.violate("C10.c", "panic-in-failing-set-operation", format!("a set operation whose output or input failed panicked: {:?}", take_last_panic()));
            }
            rep.count("fault:set_operation_failed_midway_before_this_run", 1);
        }
    }
    // cursor-level union / difference of consecutive pairs
    for i in 0..models.len() {
        let a = &models[i];
        let b = &models[(i + 1) % models.len()];
        let (_sa, ba) = serialize_model(a);
        let (_sb, bb) = serialize_model(b);
        let ia = MDBShardInfo::load_from_reader(&mut Cursor::new(&ba)).unwrap();
        let ib = MDBShardInfo::load_from_reader(&mut Cursor::new(&bb)).unwrap();
        let mut ra = ShortReader::new(&ba, p.reader_seed ^ (i as u64) << 8, p.reader_mode);
        let mut rb = ShortReader::new(&bb, p.reader_seed ^ (i as u64) << 8 ^ 1, p.reader_mode);
        let mut out = Vec::new();
        match mdb_shard::set_operations::shard_set_union(&ia, &mut ra, &ib, &mut rb, &mut out) {
            Ok(info) => {
                let want = union_models(a, b);
                check_serialised(rep, "C10", "union", &out, &want, true);
                if info.num_bytes() != out.len() as u64 {
                    rep.violate("C10.c", "union-num-bytes", format!("returned info says {} bytes, output has {}", info.num_bytes(), out.len()));
                }
                let both = a.files.keys().filter(|k| b.files.contains_key(*k)).count() + a.xorbs.keys().filter(|k| b.xorbs.contains_key(*k)).count();
                rep.count("probe:records_in_both_inputs", both as u64);
                let neither = a.files.iter().filter(|(k, f)| b.files.get(*k).map(|g| (g.flags | f.flags) != g.flags && (g.flags | f.flags) != f.flags).unwrap_or(false)).count();
                rep.count("probe:neither-is-superset_merges", neither as u64);
                if both > 0 {
                    rep.nontrivial = true;
                }
                // the union answers lookups like a shard built directly (C10.c -> C09's clauses)
                let mut rng = Rng::new(p.query_seed ^ i as u64);
                let mut sub = RunReport::default();
                check_lookups(&mut sub, &out, &want, p, &mut rng);
                for v in sub.violations {
                    rep.violate("C10.c", &format!("union-output:{}", v.site), v.detail);
                }
            },
            Err(e) => rep.violate("C10.a", "union-error", format!("{e}")),
        }
        let mut ra = ShortReader::new(&ba, p.reader_seed ^ 7, p.reader_mode);
        let mut rb = ShortReader::new(&bb, p.reader_seed ^ 8, p.reader_mode);
        let mut out = Vec::new();
        match mdb_shard::set_operations::shard_set_difference(&ia, &mut ra, &ib, &mut rb, &mut out) {
            Ok(_) => {
                // records of the second not in the first
                let mut want = ModelShard::default();
                for (k, v) in &b.files {
                    if !a.files.contains_key(k) {
                        want.files.insert(*k, v.clone());
                    }
                }
                for (k, v) in &b.xorbs {
                    if !a.xorbs.contains_key(k) {
                        want.xorbs.insert(*k, v.clone());
                    }
                }
                check_serialised(rep, "C10", "difference", &out, &want, true);
                if let Some(v) = rep.violations.iter_mut().find(|v| v.clause == "C10.a" && v.site.starts_with("difference")) {
                    v.clause = "C10.b".into();
                }
            },
            Err(e) => rep.violate("C10.b", "difference-error", format!("{e}")),
        }
    }
    // path-level union / difference (`shard_file_union` / `shard_file_difference`): the result goes to a path the
    // caller chooses — a fresh one or, accumulating in place, the path of one of the operands
    if !models.is_empty() && p.query_seed % 3 == 0 {
        let dir = scratch_dir("fo");
        let _g = ScratchGuard(dir.clone());
        let a = &models[0];
        let b = &models[1 % models.len()];
        let (_sa, ba) = serialize_model(a);
        let (_sb, bb) = serialize_model(b);
        for (op_i, opname) in ["file-union", "file-difference"].iter().enumerate() {
            let alias = (p.query_seed / 3 + op_i as u64) % 3;
            let pa = dir.join(format!("a{op_i}.mdb"));
            let pb = dir.join(format!("b{op_i}.mdb"));
            if std::fs::write(&pa, &ba).is_err() || std::fs::write(&pb, &bb).is_err() {
                rep.harness_fault = Some("could not write the operands of a path-level set operation".into());
                return;
            }
            let out = match alias {
                0 => dir.join(format!("out{op_i}.mdb")),
                1 => pa.clone(),
                _ => pb.clone(),
            };
            let clause = if op_i == 0 { "C10.a" } else { "C10.b" };
            let want = if op_i == 0 {
                union_models(a, b)
            } else {
                let mut w = ModelShard::default();
                w.files.extend(b.files.iter().filter(|(k, _)| !a.files.contains_key(*k)).map(|(k, v)| (*k, v.clone())));
                w.xorbs.extend(b.xorbs.iter().filter(|(k, _)| !a.xorbs.contains_key(*k)).map(|(k, v)| (*k, v.clone())));
                w
            };
            let r = if op_i == 0 {
                mdb_shard::set_operations::shard_file_union(&pa, &pb, &out)
            } else {
                mdb_shard::set_operations::shard_file_difference(&pa, &pb, &out)
            };
            rep.count(["probe:path_level_set_op_into_fresh_path", "probe:path_level_set_op_into_first_operand", "probe:path_level_set_op_into_second_operand"][alias as usize], 1);
            match r {
                Ok((h, info)) => {
                    let bytes = std::fs::read(&out).unwrap_or_default();
                    let before = rep.violations.len();
                    check_serialised(rep, "C10", opname, &bytes, &want, true);
                    for v in rep.violations.iter_mut().skip(before).filter(|v| v.clause == "C10.a") {
                        v.clause = clause.into();
                    }
                    if h_of(&h) != ref_chunk_hash(&bytes) {
                        rep.violate("C10.c", &format!("{opname}:returned-hash"), format!("returned hash {} is not the hash of the {} bytes written", ref_hex(&h_of(&h)), bytes.len()));
                    }
                    if info.num_bytes() != bytes.len() as u64 {
                        rep.violate("C10.c", &format!("{opname}:num-bytes"), format!("returned info says {} bytes, the file has {}", info.num_bytes(), bytes.len()));
                    }
                    // an operand that is not the output keeps its bytes
                    for (pth, orig, which) in [(&pa, &ba, "first"), (&pb, &bb, "second")] {
                        if *pth != out && std::fs::read(pth).ok().as_deref() != Some(&orig[..]) {
                            rep.violate(clause, &format!("{opname}:operand-changed"), format!("the {which} operand's file was changed by the operation"));
                        }
                    }
                },
                Err(e) => rep.violate(clause, &format!("{opname}:error"), format!("output path = {}: {e}", ["a fresh path", "the first operand", "the second operand"][alias as usize])),
            }
        }
    }
}


// ------------------------------------------------------------------------------------------------
// mode "giant": a xorb with more chunks than a 16-bit chunk offset can address (legal in the format)

fn run_giant(p: &Plan, rep: &mut RunReport) {
    let mut rng = Rng::new(p.query_seed);
    let n = 65_536 + rng.range(1, 300) as usize;
    let mut model = ModelShard::default();
    let mk = |rng: &mut Rng| -> H {
        let mut h = [0u8; 32];
        rng.fill(&mut h);
        h
    };
    // a few ordinary xorbs around it in hash order
    for _ in 0..rng.range(0, 4) {
        let mut chunks = Vec::new();
        let mut pos = 0u32;
        for _ in 0..rng.range(1, 20) {
            let l = rng.range(1, 900) as u32;
            chunks.push((mk(&mut rng), l, pos));
            pos += l;
        }
        let hash = mk(&mut rng);
        model.xorbs.insert(hash, RefXorbRec { hash, flags: 0, num_bytes: pos, num_bytes_on_disk: pos, chunks });
    }
    let ghash = mk(&mut rng);
    let mut chunks = Vec::with_capacity(n);
    let mut pos = 0u32;
    for _ in 0..n {
        let l = rng.range(1, 9) as u32;
        chunks.push((mk(&mut rng), l, pos));
        pos += l;
    }
    model.xorbs.insert(ghash, RefXorbRec { hash: ghash, flags: 0, num_bytes: pos, num_bytes_on_disk: pos, chunks });
    let giant = model.xorbs[&ghash].clone();
    let (s, bytes) = serialize_model(&model);
    // queries around the 16-bit boundary, at the ends, and a few elsewhere
    let mut starts: Vec<usize> = vec![0, 1, 65_533, 65_534, 65_535, 65_536, 65_537, n - 2, n - 1];
    for _ in 0..6 {
        starts.push(rng.usize_below(n));
    }
    let mut queries: Vec<Vec<H>> = Vec::new();
    for st in starts {
        let k = rng.range(1, 4) as usize;
        let mut q: Vec<H> = giant.chunks.iter().skip(st).take(k).map(|c| c.0).collect();
        if q.len() < k {
            // running past the end of the xorb: continue with a foreign hash
            q.push(mk(&mut rng));
        }
        queries.push(q);
    }
    let mut r = ShortReader::new(&bytes, p.reader_seed, p.reader_mode.min(1) * 2);
    let info = match MDBShardInfo::load_from_reader(&mut r) {
        Ok(i) => i,
        Err(e) => {
            rep.violate("C05.a", "giant:load", format!("{e}"));
            return;
        },
    };
    let dir = scratch_dir("g");
    let _g = ScratchGuard(dir.clone());
    let sd = dir.join("shards");
    std::fs::create_dir_all(&sd).unwrap();
    let rt = tokio::runtime::Builder::new_current_thread().enable_all().build().unwrap();
    let mgr = rt.block_on(async {
        let sf = MDBShardFile::write_out_from_reader(&sd, &mut Cursor::new(&bytes)).ok()?;
        let m = ShardFileManager::new_in_session_directory(&sd).await.ok()?;
        m.register_shards(&[sf]).await.ok()?;
        Some(m)
    });
    let Some(mgr) = mgr else {
        rep.violate("C05.a", "giant:manager", "could not register the shard".into());
        return;
    };
    let (mut hits_mem, mut hits_disk, mut hits_mgr, mut beyond) = (0u64, 0u64, 0u64, 0u64);
    for q in &queries {
        let mq: Vec<MerkleHash> = q.iter().map(m_of).collect();
        if let Some(ans) = s.chunk_hash_dedup_query(&mq) {
            hits_mem += 1;
            check_dedup_answer(rep, "C05.a", "in-memory", &model.xorbs, q, &ans, "xorb beyond 65536 chunks");
        }
        match info.chunk_hash_dedup_query(&mut r, &mq) {
            Ok(Some(ans)) => {
                hits_disk += 1;
                check_dedup_answer(rep, "C05.a", "on-disk", &model.xorbs, q, &ans, "xorb beyond 65536 chunks");
                beyond += (ans.1.chunk_index_start >= 65_536) as u64;
            },
            Ok(None) => {},
            Err(e) => rep.violate("C05.a", "on-disk-query-error", format!("{e}")),
        }
        match rt.block_on(mgr.chunk_hash_dedup_query(&mq)) {
            Ok(Some(ans)) => {
                hits_mgr += 1;
                check_dedup_answer(rep, "C05.a", "manager", &model.xorbs, q, &ans, "xorb beyond 65536 chunks");
            },
            Ok(None) => {},
            Err(e) => rep.violate("C05.a", "manager-query-error", format!("{e}")),
        }
    }
    rep.count("giant_xorb_runs", 1);
    rep.count("probe:giant_in_memory_hits", hits_mem);
    rep.count("probe:on_disk_hits", hits_disk);
    rep.count("probe:manager_hits", hits_mgr);
    rep.count("probe:giant_answers_starting_beyond_65535", beyond);
    rep.count("probe:query_longer_than_match", 1);
    rep.nontrivial = hits_disk > 0 && beyond > 0;
    rep.signature = mix(&[p.query_seed, n as u64, hits_disk, hits_mgr]);
}

// ------------------------------------------------------------------------------------------------
// mode "deduper": deduplication::FileDeduper driven directly against a mock data interface

struct DdState {
    index: MDBInMemoryShard,
    /// everything an answer may legitimately name: the known models' xorbs and every xorb the deduper cut
    universe: BTreeMap<H, RefXorbRec>,
    late: Option<ModelShard>,
    global_asked: bool,
    index_new: bool,
    cut: Vec<H>,
    answers: u64,
    bad: Vec<(String, String, String)>,
}

struct DdIface(Arc<std::sync::Mutex<DdState>>);

#[async_trait::async_trait]
impl deduplication::DeduplicationDataInterface for DdIface {
    type ErrorType = String;

    async fn chunk_hash_dedup_query(&self, q: &[MerkleHash]) -> Result<Option<(usize, FileDataSequenceEntry)>, String> {
        let mut st = self.0.lock().unwrap();
        let ans = st.index.chunk_hash_dedup_query(q);
        if let Some(a) = &ans {
            st.answers += 1;
            let mut r = RunReport::default();
            let qh: Vec<H> = q.iter().map(h_of).collect();
            check_dedup_answer(&mut r, "C05.a", "deduper-index", &st.universe, &qh, a, "index answer to the deduper");
            for v in r.violations {
                st.bad.push((v.clause, v.site, v.detail));
            }
        }
        Ok(ans)
    }

    async fn register_global_dedup_query(&mut self, _h: MerkleHash) -> Result<(), String> {
        self.0.lock().unwrap().global_asked = true;
        Ok(())
    }

    async fn complete_global_dedup_queries(&mut self) -> Result<bool, String> {
        let mut st = self.0.lock().unwrap();
        if st.global_asked {
            if let Some(m) = st.late.take() {
                for x in m.xorbs.values() {
                    st.index.add_cas_block(to_cas_info(x)).map_err(|e| e.to_string())?;
                }
                return Ok(true);
            }
        }
        Ok(false)
    }

    async fn register_new_xorb(&mut self, xorb: deduplication::RawXorbData) -> Result<(), String> {
        let mut st = self.0.lock().unwrap();
        let rec = from_cas_info(&xorb.cas_info);
        st.cut.push(rec.hash);
        st.universe.insert(rec.hash, rec);
        if st.index_new {
            st.index.add_cas_block(xorb.cas_info.clone()).map_err(|e| e.to_string())?;
        }
        Ok(())
    }
}

fn run_deduper(p: &Plan, rep: &mut RunReport) {
    let Some(dd) = p.dd.clone() else { return };
    let models = gen_models(&p.specs);
    let late = if dd.late_shard && models.len() > 1 { models.last().cloned() } else { None };
    let known: Vec<&ModelShard> = models.iter().take(if late.is_some() { models.len() - 1 } else { models.len() }).collect();
    let mut index = MDBInMemoryShard::default();
    let mut universe = BTreeMap::new();
    for m in &models {
        for x in m.xorbs.values() {
            universe.insert(x.hash, x.clone());
        }
    }
    for m in &known {
        for x in m.xorbs.values() {
            index.add_cas_block(to_cas_info(x)).unwrap();
        }
    }
    // the file's chunk sequence: runs of stored chunks (also from the late shard), own chunks from a small pool,
    // repetitions of earlier stretches of the same file
    let mut rng = Rng::new(dd.seed);
    let all_x: Vec<&RefXorbRec> = models.iter().flat_map(|m| m.xorbs.values()).filter(|x| !x.chunks.is_empty()).collect();
    let own = |id: u64| -> (H, u32) {
        let mut h = [0u8; 32];
        Rng::new(mix(&[dd.seed, 0x0e11, id])).fill(&mut h);
        (h, 1 + (mix(&[dd.seed, id]) % 64) as u32)
    };
    let mut stream: Vec<(H, u32)> = Vec::new();
    let n = dd.n_chunks as usize;
    while stream.len() < n {
        match rng.weighted(&[if all_x.is_empty() { 0 } else { 8 }, 7, if stream.is_empty() { 0 } else { 5 }]) {
            0 => {
                let x = rng.pick(&all_x);
                let a = rng.usize_below(x.chunks.len());
                let k = rng.range(1, 6) as usize;
                for c in x.chunks.iter().skip(a).take(k) {
                    stream.push((c.0, c.1));
                }
            },
            1 => {
                for _ in 0..rng.range(1, 3) {
                    stream.push(own(rng.below(dd.pool as u64)));
                }
            },
            _ => {
                let j = rng.usize_below(stream.len());
                let k = rng.range(1, 6) as usize;
                let copy: Vec<(H, u32)> = stream.iter().skip(j).take(k).cloned().collect();
                stream.extend(copy);
            },
        }
    }
    stream.truncate(n);
    let chunks: Vec<deduplication::Chunk> = stream
        .iter()
        .map(|(h, l)| deduplication::Chunk { hash: m_of(h), data: Arc::from(vec![h[0]; *l as usize]) })
        .collect();

    let st = Arc::new(std::sync::Mutex::new(DdState {
        index,
        universe,
        late,
        global_asked: false,
        index_new: dd.index_new_xorbs,
        cut: Vec::new(),
        answers: 0,
        bad: Vec::new(),
    }));
    let rt = tokio::runtime::Builder::new_current_thread().build().unwrap();
    let st2 = st.clone();
    let res: Result<_, String> = rt.block_on(async {
        let mut d = deduplication::FileDeduper::new(DdIface(st2));
        let mut pos = 0usize;
        let mut brng = Rng::new(dd.seed ^ 0xba7c);
        let mut batches = 0u64;
        while pos < chunks.len() {
            let b = (brng.range(1, dd.batch_max.max(1) as u64) as usize).min(chunks.len() - pos);
            d.process_chunks(&chunks[pos..pos + b]).await?;
            pos += b;
            batches += 1;
        }
        let (_file_hash, agg, _metrics, new_xorbs) = d.finalize([0u8; 32], None);
        Ok((agg, new_xorbs, batches))
    });
    let (agg, new_xorbs, batches) = match res {
        Ok(v) => v,
        Err(e) => {
            rep.violate("C05.a", "deduper:error", format!("process_chunks failed: {e}"));
            return;
        },
    };
    let n_left = agg.num_chunks();
    let (last_xorb, mut infos) = agg.finalize();
    let mut g = st.lock().unwrap();
    if n_left > 0 {
        let rec = from_cas_info(&last_xorb.cas_info);
        g.universe.insert(rec.hash, rec);
    }
    for (c, s, d) in std::mem::take(&mut g.bad) {
        rep.violate(&c, &s, d);
    }
    let Some(fi) = infos.pop() else {
        rep.violate("C05.a", "deduper:no-file-record", "finalize returned no file record".into());
        return;
    };
    // every segment of the file record is a dedup answer that was used (from the index, or an in-xorb
    // self-reference, or new data): the named xorb's chunks at the named positions must be the file's chunks there
    let mut at = 0usize;
    let mut self_refs = 0u64;
    let mut prev_new: Option<(H, u32)> = None;
    for (si, seg) in fi.segments.iter().enumerate() {
        let xh = h_of(&seg.cas_hash);
        let ctx = format!("segment {si} ({}[{}..{}], {} bytes) at file chunk {at}", ref_hex(&xh), seg.chunk_index_start, seg.chunk_index_end, seg.unpacked_segment_bytes);
        if xh == ZERO_H {
            rep.violate("C05.a", "deduper:unresolved-self-reference", format!("{ctx}: xorb hash never filled in"));
            return;
        }
        let Some(x) = g.universe.get(&xh) else {
            rep.violate("C05.a", "deduper:unknown-xorb", format!("{ctx}: xorb neither known nor cut by this file"));
            return;
        };
        let (a, b) = (seg.chunk_index_start as usize, seg.chunk_index_end as usize);
        if a >= b || b > x.chunks.len() {
            rep.violate("C05.a", "deduper:range", format!("{ctx}: xorb has {} chunks", x.chunks.len()));
            return;
        }
        if at + (b - a) > stream.len() {
            rep.violate("C05.a", "deduper:too-many-chunks", format!("{ctx}: file has only {} chunks", stream.len()));
            return;
        }
        let mut bytes = 0u64;
        for k in 0..(b - a) {
            if x.chunks[a + k].0 != stream[at + k].0 {
                rep.violate("C05.a", "deduper:wrong-chunk", format!("{ctx}: position {k}: xorb chunk {} but the file's chunk there is {}", ref_hex(&x.chunks[a + k].0), ref_hex(&stream[at + k].0)));
                return;
            }
            bytes += x.chunks[a + k].1 as u64;
        }
        if bytes != seg.unpacked_segment_bytes as u64 {
            rep.violate("C05.a", "deduper:bytes", format!("{ctx}: chunks sum to {bytes}"));
        }
        let own_xorb = g.cut.contains(&xh) || (n_left > 0 && xh == h_of(&last_xorb.hash()));
        if own_xorb {
            if let Some((ph, pend)) = prev_new {
                if !(ph == xh && pend == seg.chunk_index_start) && (ph != xh || seg.chunk_index_start < pend) {
                    self_refs += 1;
                }
            }
            prev_new = Some((xh, seg.chunk_index_end));
        }
        at += b - a;
    }
    if at != stream.len() {
        rep.violate("C05.a", "deduper:chunk-count", format!("file record covers {at} chunks, the file has {}", stream.len()));
    }
    let n_cut = g.cut.len() as u64;
    rep.count("deduper_runs", 1);
    rep.count("deduper_segments_checked", fi.segments.len() as u64);
    rep.count("probe:deduper_index_answers", g.answers);
    rep.count("probe:deduper_xorbs_cut_mid_file", n_cut);
    rep.count("probe:deduper_backward_self_references", self_refs);
    rep.count("probe:deduper_late_shard_arrived", (dd.late_shard && g.late.is_none() && models.len() > 1) as u64);
    let _ = new_xorbs;
    rep.nontrivial = fi.segments.len() >= 2 && (g.answers > 0 || n_cut > 0);
    rep.signature = mix(&[dd.seed, p.specs.first().map(|s| s.seed).unwrap_or(0), fi.segments.len() as u64, n_cut, batches]);
}

impl Engine for ShardEngine {
    fn name(&self) -> &'static str {
        "shard"
    }
    fn properties(&self) -> &'static [&'static str] {
        &["C05", "C09", "C10", "C18"]
    }
    fn chunk_env(&self, seed: u64, chunk: u64, focus: &str, _tier: Tier) -> Vec<(String, String)> {
        // per-process configuration of the file-level deduper (mode "deduper" of C05): small xorb limits make xorb
        // cuts land inside files and batches; the fragmentation limits decide which dedup answers are used
        if focus == "C10" && chunk % 4 != 0 {
            // the cap of the managers' in-memory chunk index (a designed exception to dedup completeness, C11): set
            // operations and consolidation must not depend on it
            let mut rng = Rng::stream(seed, chunk, "shard-config");
            return vec![("HF_XET_CHUNK_INDEX_TABLE_MAX_SIZE".to_string(), rng.pick(&[4usize, 16, 64, 500]).to_string())];
        }
        if focus != "C05" || chunk % 4 == 0 {
            return Vec::new();
        }
        let mut rng = Rng::stream(seed, chunk, "shard-config");
        let mut env = Vec::new();
        let mut set = |k: &str, v: String| env.push((format!("HF_XET_{k}"), v));
        set("MAX_XORB_CHUNKS", rng.pick(&[1usize, 2, 3, 4, 6, 9, 17, 8192]).to_string());
        set("MAX_XORB_BYTES", rng.pick(&[300_000usize, 1 << 20, 64 << 20]).to_string());
        if rng.chance(2, 3) {
            set("NRANGES_IN_STREAMING_FRAGMENTATION_ESTIMATOR", rng.pick(&[1usize, 2, 4, 8, 16]).to_string());
            set("MIN_N_CHUNKS_PER_RANGE", rng.pick(&["1.0", "1.5", "2.0", "4.0", "8.0"]).to_string());
            set("MIN_N_CHUNKS_PER_RANGE_HYSTERESIS_FACTOR", rng.pick(&["0.25", "0.5", "0.9"]).to_string());
        }
        env
    }
    fn budget(&self, focus: &str, tier: Tier) -> Budget {
        match (tier, focus) {
            (Tier::Quick, "C09") => Budget { runs: 400_000, chunk: 4_000, max_wall_s: 120 },
            (Tier::Thorough, "C09") => Budget { runs: 8_000_000, chunk: 20_000, max_wall_s: 900 },
            (Tier::Quick, _) => Budget { runs: 150_000, chunk: 2_000, max_wall_s: 120 },
            (Tier::Thorough, _) => Budget { runs: 4_000_000, chunk: 10_000, max_wall_s: 900 },
        }
    }
    fn gen_plan(&self, seed: u64, run: u64, focus: &str, tier: Tier) -> Value {
        serde_json::to_value(gen(seed, run, focus, tier)).unwrap()
    }
    fn execute(&self, plan: &Value, focus: &str) -> RunReport {
        let p: Plan = serde_json::from_value(plan.clone()).expect("shard plan");
        let mut rep = RunReport::default();
        if p.mode == "format" {
            run_format(&p, &mut rep);
        } else if p.mode == "deduper" {
            run_deduper(&p, &mut rep);
        } else if p.mode == "giant" {
            run_giant(&p, &mut rep);
        } else {
            let models: Vec<ModelShard> = gen_models(&p.specs);
            match p.mode.as_str() {
                "dedup" => run_direct_dedup(&p, &models, &mut rep),
                "setops" => run_setops_direct(&p, &models, &mut rep),
                _ => {},
            }
            let rt = tokio::runtime::Builder::new_current_thread().enable_all().build().unwrap();
            rt.block_on(run_dir_history(&p, &models, &mut rep, focus));
            let c = |k: &str| rep.counters.get(k).copied().unwrap_or(0);
            rep.nontrivial = match focus {
                "C05" => c("probe:on_disk_hits") + c("probe:manager_hits") > 0 && (c("probe:query_longer_than_match") > 0 || c("probe:colliding_prefix_consulted") > 0),
                "C10" => rep.nontrivial || c("probe:consolidation_merged_shards") > 0,
                _ => c("keyed_exports_checked") > 0 && c("probe:manager_hits") > 0,
            };
            let mut w: Vec<u64> = p.specs.iter().map(|s| s.seed).collect();
            w.push(p.ops.len() as u64);
            w.push(c("probe:manager_hits"));
            w.push(c("ops:consolidate"));
            w.push(c("keyed_exports_checked"));
            w.push(mix(&[label_hash_ops(&p.ops)]));
            rep.signature = mix(&w);
        }
        rep.sample = Some(json!({"mode": p.mode, "specs": p.specs.iter().map(|s| json!([s.n_files, s.n_xorbs, s.max_chunks, s.hash_style, s.flags_mode])).collect::<Vec<_>>(), "reader_mode": p.reader_mode, "ops": p.ops.iter().take(12).map(|o| format!("{o:?}")).collect::<Vec<_>>()}));
        rep
    }
    fn shrink(&self, plan: &Value) -> Vec<Value> {
        let p: Plan = serde_json::from_value(plan.clone()).expect("shard plan");
        let mut out: Vec<Plan> = Vec::new();
        for i in 0..p.ops.len() {
            let mut q = p.clone();
            q.ops.remove(i);
            out.push(q);
        }
        if p.specs.len() > 1 {
            for i in 0..p.specs.len() {
                let mut q = p.clone();
                q.specs.remove(i);
                out.push(q);
            }
        }
        for (i, s) in p.specs.iter().enumerate() {
            if s.n_files > 0 {
                let mut q = p.clone();
                q.specs[i].n_files = s.n_files / 2;
                out.push(q);
            }
            if s.n_xorbs > 0 {
                let mut q = p.clone();
                q.specs[i].n_xorbs = s.n_xorbs / 2;
                out.push(q);
            }
            if s.max_chunks > 1 {
                let mut q = p.clone();
                q.specs[i].max_chunks = s.max_chunks / 2;
                out.push(q);
            }
            if s.hash_style != 0 {
                let mut q = p.clone();
                q.specs[i].hash_style = 0;
                out.push(q);
            }
        }
        if p.reader_mode != 0 {
            let mut q = p.clone();
            q.reader_mode = 0;
            q.pending_p = 0;
            out.push(q);
        }
        if p.reinsert > 0 {
            let mut q = p.clone();
            q.reinsert = 0;
            out.push(q);
        }
        out.into_iter().map(|q| serde_json::to_value(q).unwrap()).collect()
    }
    fn rule(&self, focus: &str) -> String {
        match focus {
            "C09" => "Each run: a seeded model shard (0..700 files, 0..60 xorbs, up to 3000 chunks per xorb, four hash styles incl. <=7 equal truncated prefixes, extreme and densely clustered keys; five flag modes; optional re-insertion of identical records) is built through the real in-memory shard, serialised, parsed by the independent parser, and queried through a seekable reader with seeded short reads, the minimal-shard readers (sync short reads; async short reads + Pending) and the stream walker. Non-trivial: some lookup table has > 256 entries (interpolation phase live) or a truncated-prefix collision group exists. Distinct: (model seed, reader seed, reader mode, table size).".into(),
            "C05" => "Each run: 1-3 model shards with duplicate chunks across xorbs and colliding truncated prefixes; direct queries against the in-memory index and the on-disk shard (short-read reader), then a seeded directory history (add/flush/plant/consolidate/keyed re-export under several keys/re-open/clock jumps) with manager queries after each step; every answer is checked for truthfulness against the xorbs ever added. One run in four instead drives deduplication::FileDeduper directly (mode \"deduper\"): a seeded chunk sequence made of runs of stored chunks, own chunks from a small pool and repetitions of earlier stretches is fed in seeded batches against a mock data interface answering from a real in-memory index (a second shard may arrive through the global-dedup query; xorbs the deduper cuts may be added to the index), under per-process xorb limits of 1..17 chunks and sampled fragmentation limits; every index answer and every segment of the final file record (index answers used, in-xorb self-references, new data, across xorb cuts) must name a xorb whose chunks at those positions are the file's chunks there, with the right byte count. One run in 400 (quick) or 150 (thorough) builds a shard with a xorb of 65537..65835 chunks — more than the manager's 16-bit chunk offsets address, legal in the format — and queries the in-memory index, the on-disk shard and a manager around chunk 65535, at the ends and at random positions. Non-trivial: >= 1 hit came from an on-disk shard or the manager and >= 1 query ran past a match end or met a colliding prefix (deduper mode: >= 2 segments and an index answer or a mid-file xorb cut). Distinct: (model seeds, op list hash, hit count).".into(),
            "C10" => "Each run: 2-4 model shards (disjoint / overlapping / identical via shared seeds / empty; same file with different flag sets) -> cursor-level union and difference through short-read readers, path-level union and difference (shard_file_union / shard_file_difference) into a fresh path or onto the first or second operand's path, plus a seeded directory history with consolidation under thresholds from 'merge nothing' to 'merge all' and simulated mtimes (ordered, tied, reversed). Non-trivial: >= 1 record occurred in both inputs of a union, or a consolidation merged shards. Distinct: (model seeds, op list hash, consolidation count).".into(),
            _ => "Each run: shards re-exported under 4 keys (incl. the zero key) with all 8 include-flag combinations into one directory while a simulated clock is advanced across creation/expiry/grace boundaries; exported bytes are checked by the independent parser (every chunk hash and table key keyed, no raw chunk hash, xorb/file hashes kept, sections present iff requested, timestamps), manager answers for unkeyed queries are checked for truthfulness, expired shards must not load and may be deleted only after expiry+grace. Non-trivial: >= 1 keyed export was checked and >= 1 manager query hit. Distinct: (model seeds, op list hash, export count).".into(),
        }
    }
    fn real_vs_stub(&self) -> Value {
        json!({"real": ["deduplication::{FileDeduper, DataAggregator, RawXorbData} (C05 deduper mode; its DeduplicationDataInterface is a mock answering from a real MDBInMemoryShard)", "mdb_shard::{MDBInMemoryShard, MDBShardInfo (serialize_from, lookups, interpolation search, keyed export), set_operations, session_directory::consolidate_shards_in_directory, MDBShardFile, ShardFileManager, streaming_shard}"], "simulated": ["reader delivery (short reads, Pending)", "wall clock and file mtimes (H6)", "another process planting shard files"], "reference": ["ref_shard_parse, ref_hmac, model shards"]})
    }
    fn assumptions(&self, _focus: &str) -> Vec<String> {
        vec!["Inputs are seeded generation; the simulated dimensions are reader delivery, the clock, mtimes and the directory history (DESIGN §7).".into()]
    }
}

fn label_hash_ops(ops: &[DirOp]) -> u64 {
    crate::prng::label_hash(&format!("{ops:?}"))
}

#[allow(dead_code)]
fn unused(_: BTreeSet<u8>, _: MDBInMemoryShard) {}
