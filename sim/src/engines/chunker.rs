//! C04 — stream-delivery simulation of the real `deduplication::Chunker` against the reference gear-hash rule.
//! The only simulated dimension is how the byte stream is cut into `next`/`next_block` calls.

use serde::{Deserialize, Serialize};
use serde_json::{json, Value};

use crate::content::{gen_content, ContentSpec, N_CONTENT_KINDS};
use crate::core::*;
use crate::prng::{fragment_sizes, mix, Rng};
use crate::refmodel::*;

pub struct ChunkerEngine;

#[derive(Clone, Debug, Serialize, Deserialize)]
pub struct Plan {
    pub target_log2: u32,
    pub content: ContentSpec,
    /// Some(..): content is a recombination of atoms (chunks of the base content), by index
    pub atom_order: Option<Vec<usize>>,
    pub frag_style: u32,
    pub frag_seed: u64,
    /// 0: `next` loop + finish ; 1: next_block(false)… + finish ; 2: next_block, last call with is_final=true
    pub api_mode: u32,
    /// explicit fragment sizes (set by the minimiser; overrides style/seed)
    pub frags: Option<Vec<usize>>,
    pub suffix_pick: u64,
}

fn build_stream(p: &Plan) -> Vec<u8> {
    let base = gen_content(&p.content);
    match &p.atom_order {
        None => base,
        Some(order) => {
            let target = 1usize << p.target_log2;
            let lens = ref_chunker(&base, target);
            // atoms: every chunk except the stream's last
            let mut atoms = Vec::new();
            let mut pos = 0;
            for (i, l) in lens.iter().enumerate() {
                if i + 1 < lens.len() {
                    atoms.push(&base[pos..pos + l]);
                }
                pos += l;
            }
            if atoms.is_empty() {
                return base;
            }
            let mut out = Vec::new();
            for &i in order {
                out.extend_from_slice(atoms[i % atoms.len()]);
            }
            out
        },
    }
}

fn run_real(target: usize, data: &[u8], frags: &[usize], api_mode: u32) -> Vec<(merklehash::MerkleHash, Vec<u8>)> {
    use deduplication::Chunker;
    let mut c = Chunker::new(target);
    let mut out = Vec::new();
    let mut pos = 0usize;
    let nfr = frags.len();
    for (fi, &f) in frags.iter().enumerate() {
        let frag = &data[pos..pos + f];
        pos += f;
        match api_mode {
            0 => {
                let mut p = 0usize;
                loop {
                    let (ch, used) = c.next(&frag[p..], false);
                    if let Some(ch) = ch {
                        out.push((ch.hash, ch.data.to_vec()));
                    }
                    p += used;
                    if p >= frag.len() {
                        break;
                    }
                }
            },
            1 => {
                for ch in c.next_block(frag, false) {
                    out.push((ch.hash, ch.data.to_vec()));
                }
            },
            _ => {
                let last = fi + 1 == nfr;
                for ch in c.next_block(frag, last) {
                    out.push((ch.hash, ch.data.to_vec()));
                }
            },
        }
    }
    if let Some(ch) = c.finish() {
        out.push((ch.hash, ch.data.to_vec()));
    }
    out
}

impl Engine for ChunkerEngine {
    fn name(&self) -> &'static str {
        "stream/chunker"
    }
    fn properties(&self) -> &'static [&'static str] {
        &["C04"]
    }
    fn budget(&self, _focus: &str, tier: Tier) -> Budget {
        match tier {
            Tier::Quick => Budget {
                runs: 1_200_000,
                chunk: 5_000,
                max_wall_s: 90,
            },
            Tier::Thorough => Budget {
                runs: 20_000_000,
                chunk: 20_000,
                max_wall_s: 900,
            },
        }
    }

    fn gen_plan(&self, seed: u64, run: u64, _focus: &str, tier: Tier) -> Value {
        let mut rng = Rng::stream(seed, run, "c04");
        // small targets are cheap; the skip-ahead branch needs >= 1024
        let target_log2 = match rng.below(10) {
            0 => rng.range(7, 9) as u32,
            1..=5 => rng.range(10, 12) as u32,
            6..=8 => rng.range(13, 15) as u32,
            _ => rng.range(16, 17) as u32,
        };
        let target = 1usize << target_log2;
        let max_len = match tier {
            Tier::Quick => (40 * target).min(1 << 20),
            Tier::Thorough => (80 * target).min(3 << 20),
        };
        let len = match rng.below(12) {
            0 => 0,
            1 => rng.urange(1, 70),
            2 => rng.urange((target / 8).saturating_sub(66), target / 8 + 2),
            3 => rng.urange(2 * target - 2, 2 * target + 2),
            4 => rng.urange(4 * target - 2, 4 * target + 2),
            _ => rng.log_range(1, max_len as u64) as usize,
        };
        let kind = match rng.below(10) {
            0..=3 => 0,
            _ => rng.below(N_CONTENT_KINDS as u64) as u32,
        };
        let content = ContentSpec {
            kind,
            seed: rng.next_u64(),
            len,
        };
        let atom_order = if kind == 0 && rng.chance(1, 4) && len > 4 * target {
            let n = rng.urange(2, 40);
            Some((0..n).map(|_| rng.usize_below(6)).collect())
        } else {
            None
        };
        let p = Plan {
            target_log2,
            content,
            atom_order,
            frag_style: rng.below(6) as u32,
            frag_seed: rng.next_u64(),
            api_mode: rng.below(3) as u32,
            frags: None,
            suffix_pick: rng.next_u64(),
        };
        let mut p = p;
        if p.content.kind % N_CONTENT_KINDS == 8 && p.atom_order.is_none() && rng.chance(1, 2) {
            // sparse content delivered region by region: a call starts exactly where a run of equal bytes starts
            p.frags = Some(crate::content::sparse_region_lens(&p.content));
        }
        serde_json::to_value(p).unwrap()
    }

    fn execute(&self, plan: &Value, _focus: &str) -> RunReport {
        let p: Plan = serde_json::from_value(plan.clone()).expect("plan");
        let mut rep = RunReport::default();
        let target = 1usize << p.target_log2;
        let min = target / 8;
        let max = target * 2;
        let data = build_stream(&p);
        let frags = match &p.frags {
            Some(f) => {
                let mut f = f.clone();
                let s: usize = f.iter().sum();
                if s < data.len() {
                    f.push(data.len() - s);
                }
                // clamp if the stream became shorter
                let mut left = data.len();
                for x in f.iter_mut() {
                    *x = (*x).min(left);
                    left -= *x;
                }
                f
            },
            None => {
                let mut frng = Rng::new(p.frag_seed);
                let special = [min.saturating_sub(65), min, max, 64, target];
                fragment_sizes(&mut frng, data.len(), p.frag_style, &special)
            },
        };
        let expect = ref_chunker(&data, target);
        // history on this thread (one run in four): another stream was being chunked and its chunker was dropped with
        // an open chunk — a cancelled or failed file; it must leave nothing behind for the next chunker
        if mix(&[p.frag_seed, 0xabad]) % 4 == 0 {
            let mut c = deduplication::Chunker::new(target);
            let mut r = Rng::new(p.frag_seed ^ 0xabad);
            let n_junk = 1 + r.usize_below(max + min);
            let junk = r.bytes(n_junk);
            let cut = r.usize_below(junk.len()) + 1;
            let _ = c.next_block(&junk[..cut], false);
            let _ = c.next_block(&junk[cut..], false);
            drop(c);
            rep.count("fault:chunker_abandoned_mid_stream_before_this_run", 1);
        }
        let got = run_real(target, &data, &frags, p.api_mode);

        // C04.a concatenation
        let mut cat = Vec::with_capacity(data.len());
        for (_, d) in &got {
            cat.extend_from_slice(d);
        }
        if cat != data {
            rep.violate("C04.a", "concat", format!("chunks concatenate to {} bytes, input {} bytes (or differ)", cat.len(), data.len()));
        }
        // C04.b / C04.c boundaries equal the reference for this partition
        let got_lens: Vec<usize> = got.iter().map(|(_, d)| d.len()).collect();
        if got_lens != expect {
            let first = got_lens.iter().zip(expect.iter()).position(|(a, b)| a != b).unwrap_or(got_lens.len().min(expect.len()));
            rep.violate(
                "C04.b",
                "boundaries",
                format!(
                    "target {target}: chunk #{first}: real {:?} vs reference {:?} (n real {}, n ref {}), api_mode {}, {} fragments",
                    got_lens.get(first),
                    expect.get(first),
                    got_lens.len(),
                    expect.len(),
                    p.api_mode,
                    frags.len()
                ),
            );
        }
        // C04.c partition independence, directly: one-shot delivery must give the same chunks
        if frags.len() > 1 {
            let one = run_real(target, &data, &[data.len()], 1);
            let one_lens: Vec<usize> = one.iter().map(|(_, d)| d.len()).collect();
            if one_lens != got_lens {
                rep.violate("C04.c", "partition", format!("target {target}: one-shot {} chunks, fragmented {} chunks", one_lens.len(), got_lens.len()));
            }
        }
        // C04.d bounds
        for (i, l) in got_lens.iter().enumerate() {
            if *l > max {
                rep.violate("C04.d", "max", format!("chunk #{i} has {l} > max {max}"));
            }
            if i + 1 < got_lens.len() && *l + 64 < min {
                rep.violate("C04.d", "min", format!("chunk #{i} has {l} < min {min} - 64"));
            }
            if *l == 0 {
                rep.violate("C04.d", "empty", format!("chunk #{i} is empty"));
            }
        }
        // C04.f chunk hash
        for (i, (h, d)) in got.iter().enumerate() {
            if h_of(h) != ref_chunk_hash(d) {
                rep.violate("C04.f", "hash", format!("chunk #{i} hash differs from keyed blake3 of its bytes"));
                break;
            }
        }
        // C04.e suffix re-chunking from a fresh chunker
        if got_lens.len() >= 2 {
            let k = 1 + (p.suffix_pick as usize) % (got_lens.len() - 1);
            let off: usize = got_lens[..k].iter().sum();
            let tail = run_real(target, &data[off..], &[data.len() - off], 1);
            let tail_lens: Vec<usize> = tail.iter().map(|(_, d)| d.len()).collect();
            if tail_lens != got_lens[k..] {
                rep.violate("C04.e", "suffix", format!("re-chunking from chunk #{k} (offset {off}) gives different boundaries"));
            }
        }

        // probes
        let n_forced = got_lens.iter().filter(|&&l| l == max).count() as u64;
        let n_early = got_lens.iter().take(got_lens.len().saturating_sub(1)).filter(|&&l| l < min).count() as u64;
        rep.count("probe:forced_cut_chunks", n_forced);
        rep.count("probe:chunks_shorter_than_min", n_early);
        rep.count("probe:skip_branch_live_runs", (min > 65 && data.len() > min) as u64);
        rep.count("fault:stream_fragments", frags.len() as u64);
        rep.count("fault:empty_calls", frags.iter().filter(|&&f| f == 0).count() as u64);
        rep.count("fault:one_byte_calls", frags.iter().filter(|&&f| f == 1).count() as u64);
        rep.count("chunks_checked", got_lens.len() as u64);
        rep.nontrivial = got_lens.len() >= 3 && frags.len() >= 2 && target >= 1024;
        let mut words = vec![p.target_log2 as u64, p.content.kind as u64, p.api_mode as u64];
        words.extend(got_lens.iter().map(|&l| l as u64));
        words.push(u64::MAX);
        words.extend(frags.iter().take(64).map(|&l| l as u64));
        rep.signature = mix(&words);
        rep.sample = Some(json!({
            "target": target, "content_kind": p.content.kind, "len": data.len(), "atoms": p.atom_order.is_some(),
            "api_mode": p.api_mode, "n_fragments": frags.len(), "first_fragments": frags.iter().take(8).collect::<Vec<_>>(),
            "n_chunks": got_lens.len(), "first_chunk_lens": got_lens.iter().take(6).collect::<Vec<_>>()
        }));
        rep
    }

    fn shrink(&self, plan: &Value) -> Vec<Value> {
        let p: Plan = serde_json::from_value(plan.clone()).expect("plan");
        let mut out = Vec::new();
        let mut push = |q: Plan| out.push(serde_json::to_value(q).unwrap());
        if p.atom_order.is_some() {
            let mut q = p.clone();
            q.atom_order = None;
            push(q);
        }
        for f in [2, 4] {
            if p.content.len / f > 0 {
                let mut q = p.clone();
                q.content.len = p.content.len - p.content.len / f;
                q.frags = None;
                push(q);
            }
        }
        if p.content.len > 0 {
            let mut q = p.clone();
            q.content.len -= 1;
            q.frags = None;
            push(q);
        }
        if p.frags.is_none() || p.frags.as_ref().map(|f| f.len() > 1).unwrap_or(false) {
            let mut q = p.clone();
            q.frags = Some(vec![]);
            push(q);
        }
        if p.api_mode != 1 {
            let mut q = p.clone();
            q.api_mode = 1;
            push(q);
        }
        if p.target_log2 > 7 {
            let mut q = p.clone();
            q.target_log2 -= 1;
            push(q);
        }
        out
    }

    fn rule(&self, _focus: &str) -> String {
        "Each run: a seeded stream (random / constant / periodic / small-alphabet / early-match / sparse: random segments alternating with long runs of one byte, optionally delivered region by region / atom recombination) at a seeded power-of-two target 2^7..2^17 is delivered to the real Chunker in seeded fragments (0- and 1-byte calls, sizes hugging min-65/min/max, huge) through one of three API modes and compared with the independent reference chunker; before one run in four another chunker is fed a partial stream on the same thread and dropped with its chunk open. Non-trivial: stream produced >= 3 chunks, was delivered in >= 2 calls and target >= 1024 (skip-ahead branch live). Distinct: hash of (target, content kind, API mode, chunk length list, first 64 fragment sizes).".into()
    }
    fn real_vs_stub(&self) -> Value {
        json!({"real": ["deduplication::Chunker (next, next_block, finish)", "merklehash::compute_data_hash", "gearhash"], "simulated": ["delivery of the byte stream (fragment sizes, API mode)"], "reference": ["ref_chunker", "ref_chunk_hash"]})
    }
    fn assumptions(&self, _focus: &str) -> Vec<String> {
        vec![
            "The gear table of crate gearhash and blake3 are the trusted base of the reference.".into(),
            "Only delivery fragmentation is simulated; contents and targets are seeded generation (DESIGN §7 C04).".into(),
        ]
    }
}
