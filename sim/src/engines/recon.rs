//! `recon` engine (C17): real `RemoteClient` reconstruction writers (sequential and parallel), real `get_one_term`
//! with singleflight and a real `DiskCache` (or none), over a simulated blob transport (H3): the harness plays the
//! CAS server (plans, fetch infos) and serves the serialised chunk ranges as fragment streams after seeded latencies
//! on the paused clock, so term fetches complete in arbitrary order.

use std::collections::HashMap;
use std::sync::{Arc, Mutex};
use std::time::Duration;

use cas_client::remote_client::verif_transport::{self, ByteStream, Transport};
use cas_client::{FileProvider, OutputProvider, RemoteClient};
use cas_types::{CASReconstructionFetchInfo, CASReconstructionTerm, ChunkRange, FileRange, HexMerkleHash, HttpRange};
use chunk_cache::{CacheConfig, ChunkCache, DiskCache};
use futures::future::BoxFuture;
use serde::{Deserialize, Serialize};
use serde_json::{json, Value};

use crate::core::*;
use crate::engines::session::{scratch_dir, ScratchGuard};
use crate::prng::{label_hash, mix, Rng};
use crate::refmodel::*;

pub struct ReconEngine;

#[derive(Clone, Debug, Serialize, Deserialize, PartialEq)]
pub struct VXorb {
    pub seed: u64,
    pub n_chunks: u32,
    pub len_style: u32,
    /// compression used by the "server" for this xorb: 0 none, 1 lz4, 2 bg4, 3 auto
    pub scheme: u32,
    /// fetch ranges offered for this xorb (chunk index ranges)
    pub fetch: Vec<(u32, u32)>,
}

#[derive(Clone, Debug, Serialize, Deserialize, PartialEq)]
pub struct Term {
    pub xorb: usize,
    pub a: u32,
    pub b: u32,
}

#[derive(Clone, Debug, Serialize, Deserialize, PartialEq)]
pub struct Plan {
    pub xorbs: Vec<VXorb>,
    pub terms: Vec<Term>,
    pub offset_into_first: u64,
    /// Some(len): a byte range of that length is requested (starting `offset_into_first` into the first term)
    pub range_len: Option<u64>,
    /// 0 no cache; 1 large cache; 2 small cache (evictions)
    pub cache_mode: u32,
    pub latency_mode: u32,
    pub schedule_seed: u64,
    pub frag_mode: u32,
    /// passes: each (parallel?, ) ; executed in order on the same client/cache
    pub passes: Vec<bool>,
}

struct XData {
    hash: H,
    chunks: Vec<Vec<u8>>,
    /// serialised bytes of each chunk (header + payload)
    ser: Vec<Vec<u8>>,
}

fn build_xorb(x: &VXorb) -> XData {
    let mut rng = Rng::new(x.seed);
    let mut hb = [0u8; 32];
    rng.fill(&mut hb);
    let mut chunks = Vec::new();
    let mut ser = Vec::new();
    for i in 0..x.n_chunks {
        let len = match x.len_style % 3 {
            0 => rng.range(1, 40),
            1 => rng.range(1, 3000),
            _ => rng.log_range(1, 70_000),
        } as usize;
        // distinct content per chunk, some compressible
        let mut d = vec![0u8; len];
        if i % 3 == 2 {
            let b = rng.below(256) as u8;
            for (k, v) in d.iter_mut().enumerate() {
                *v = b.wrapping_add((k / 7) as u8);
            }
            if len >= 8 {
                d[..8].copy_from_slice(&mix(&[x.seed, i as u64]).to_le_bytes());
            }
        } else {
            rng.fill(&mut d);
        }
        let scheme = match x.scheme % 4 {
            0 => Some(cas_object::CompressionScheme::None),
            1 => Some(cas_object::CompressionScheme::LZ4),
            2 => Some(cas_object::CompressionScheme::ByteGrouping4LZ4),
            _ => None,
        };
        let mut out = Vec::new();
        cas_object::serialize_chunk(&d, &mut out, scheme).expect("serialize_chunk");
        ser.push(out);
        chunks.push(d);
    }
    XData { hash: hb, chunks, ser }
}

struct SimTransport {
    /// url -> (xorb index, fetch range)
    routes: HashMap<String, (usize, u32, u32)>,
    data: Arc<Vec<XData>>,
    st: Arc<Mutex<TState>>,
    schedule_seed: u64,
    latency_mode: u32,
    frag_mode: u32,
}

#[derive(Default)]
struct TState {
    fetches: u64,
    fetch_order: Vec<u64>,
    complete_order: Vec<u64>,
    fragments: u64,
}

impl Transport for SimTransport {
    fn fetch(&self, ft: CASReconstructionFetchInfo) -> BoxFuture<'static, Result<ByteStream, cas_client::CasClientError>> {
        let route = self.routes.get(&ft.url).copied();
        let data = self.data.clone();
        let st = self.st.clone();
        let seed = self.schedule_seed;
        let lm = self.latency_mode;
        let fm = self.frag_mode;
        Box::pin(async move {
            let Some((xi, a, b)) = route else {
                return Err(cas_client::CasClientError::Other(format!("xsim transport: unknown url {}", ft.url)));
            };
            let id = {
                let mut s = st.lock().unwrap();
                s.fetches += 1;
                let id = s.fetches;
                s.fetch_order.push(id);
                id
            };
            let r = mix(&[seed, label_hash("fetch"), id]);
            let ms = match lm {
                0 => 0,
                1 => 1 + r % 1000,
                2 => {
                    if r % 8 == 0 {
                        60_000 + r % 1000
                    } else {
                        1 + r % 20
                    }
                },
                _ => 10_000u64.saturating_sub(id * 100),
            };
            if ms > 0 {
                tokio::time::sleep(Duration::from_millis(ms)).await;
            } else {
                tokio::task::yield_now().await;
            }
            let mut bytes = Vec::new();
            for i in a..b {
                bytes.extend_from_slice(&data[xi].ser[i as usize]);
            }
            // cut into fragments
            let mut frng = Rng::new(mix(&[seed, id, 99]));
            let mut frags: Vec<std::io::Result<bytes::Bytes>> = Vec::new();
            let mut pos = 0;
            while pos < bytes.len() {
                let n = match fm % 3 {
                    0 => bytes.len(),
                    1 => frng.urange(0, 9),
                    _ => match frng.below(4) {
                        0 => 0,
                        1 => 1,
                        2 => frng.urange(1, 200),
                        _ => frng.log_range(1, 1 << 16) as usize,
                    },
                }
                .min(bytes.len() - pos);
                frags.push(Ok(bytes::Bytes::copy_from_slice(&bytes[pos..pos + n])));
                pos += n;
                if frags.len() > 5000 {
                    frags.push(Ok(bytes::Bytes::copy_from_slice(&bytes[pos..])));
                    break;
                }
            }
            {
                let mut s = st.lock().unwrap();
                s.complete_order.push(id);
                s.fragments += frags.len() as u64;
            }
            let s: ByteStream = Box::pin(futures::stream::iter(frags));
            Ok(s)
        })
    }
}

struct SeededDraws(Mutex<Rng>);
impl utils::verif::Hooks for SeededDraws {
    fn rand_usize(&self) -> Option<usize> {
        Some(self.0.lock().unwrap().next_u64() as usize)
    }
}

fn http_client() -> Arc<reqwest_middleware::ClientWithMiddleware> {
    static C: std::sync::OnceLock<Arc<reqwest_middleware::ClientWithMiddleware>> = std::sync::OnceLock::new();
    C.get_or_init(|| Arc::new(cas_client::build_http_client(cas_client::RetryConfig::default()).expect("http client")))
        .clone()
}

fn gen(seed: u64, run: u64, tier: Tier) -> Plan {
    let mut rng = Rng::stream(seed, run, "recon");
    let n_x = rng.weighted(&[3, 3, 2, 1]) + 1;
    let mut xorbs: Vec<VXorb> = Vec::new();
    for _ in 0..n_x {
        let n = rng.range(1, 14) as u32;
        xorbs.push(VXorb {
            seed: rng.next_u64(),
            n_chunks: n,
            len_style: rng.weighted(&[3, 3, if tier == Tier::Quick { 1 } else { 2 }]) as u32,
            scheme: rng.below(4) as u32,
            fetch: Vec::new(),
        });
    }
    let n_terms = rng.log_range(1, 40) as usize;
    let mut terms: Vec<Term> = Vec::new();
    for _ in 0..n_terms {
        let xi = rng.usize_below(n_x);
        let n = xorbs[xi].n_chunks;
        let a = rng.below(n as u64) as u32;
        let b = a + 1 + rng.below((n - a) as u64) as u32;
        // repeated terms are likely: reuse an earlier term sometimes
        if !terms.is_empty() && rng.chance(1, 4) {
            let t: Term = rng.pick(&terms).clone();
            terms.push(t);
        } else {
            terms.push(Term { xorb: xi, a, b });
        }
    }
    // fetch ranges: every term must be covered by one; styles: exact per term / one whole-xorb range / merged
    // overlapping windows / larger than the term
    for (xi, x) in xorbs.iter_mut().enumerate() {
        let mine: Vec<&Term> = terms.iter().filter(|t| t.xorb == xi).collect();
        let style = rng.below(4);
        let mut f: Vec<(u32, u32)> = Vec::new();
        match style {
            0 => {
                for t in &mine {
                    if !f.contains(&(t.a, t.b)) {
                        f.push((t.a, t.b));
                    }
                }
            },
            1 => f.push((0, x.n_chunks)),
            2 => {
                for t in &mine {
                    let a = t.a.saturating_sub(rng.below(3) as u32);
                    let b = (t.b + rng.below(3) as u32).min(x.n_chunks);
                    if !f.iter().any(|(fa, fb)| *fa <= t.a && t.b <= *fb) {
                        f.push((a, b));
                    }
                }
            },
            _ => {
                // a few windows plus exact ranges for what they miss; decoy ranges that cover nothing needed come first
                if x.n_chunks > 2 {
                    f.push((0, 1));
                }
                let w = rng.range(2, 6) as u32;
                let mut s = 0;
                while s < x.n_chunks {
                    f.push((s, (s + w).min(x.n_chunks)));
                    s += w;
                }
                for t in &mine {
                    if !f.iter().any(|(fa, fb)| *fa <= t.a && t.b <= *fb) {
                        f.push((t.a, t.b));
                    }
                }
            },
        }
        x.fetch = f;
    }
    let built: Vec<XData> = xorbs.iter().map(build_xorb).collect();
    let term_len = |t: &Term| -> u64 { built[t.xorb].chunks[t.a as usize..t.b as usize].iter().map(|c| c.len() as u64).sum() };
    let total: u64 = terms.iter().map(term_len).sum();
    let first = term_len(&terms[0]);
    let (offset, range_len) = match rng.below(4) {
        0 => (0, None),
        1 => {
            // a range that uses every term: starts inside the first, ends inside the last
            let off = rng.below(first);
            let last = term_len(terms.last().unwrap());
            let min_len = if terms.len() == 1 { 1 } else { total - off - last + 1 };
            let max_len = total - off;
            (off, Some(min_len + rng.below(max_len - min_len + 1)))
        },
        2 => {
            let off = rng.below(first);
            (off, Some(1 + rng.below((total - off).min(3))))
        },
        _ => {
            let off = rng.below(first);
            (off, Some(total - off))
        },
    };
    Plan {
        xorbs,
        terms,
        offset_into_first: offset,
        range_len,
        cache_mode: rng.below(3) as u32,
        latency_mode: rng.weighted(&[1, 4, 2, 2]) as u32,
        schedule_seed: rng.next_u64(),
        frag_mode: rng.below(3) as u32,
        passes: match rng.below(4) {
            0 => vec![false, true],
            1 => vec![true, false],
            2 => vec![true, true, false],
            _ => vec![false, false, true],
        },
    }
}

impl Engine for ReconEngine {
    fn name(&self) -> &'static str {
        "recon"
    }
    fn properties(&self) -> &'static [&'static str] {
        &["C17"]
    }
    fn budget(&self, _focus: &str, tier: Tier) -> Budget {
        match tier {
            Tier::Quick => Budget { runs: 300_000, chunk: 3_000, max_wall_s: 120 },
            Tier::Thorough => Budget { runs: 6_000_000, chunk: 20_000, max_wall_s: 900 },
        }
    }
    fn chunk_env(&self, seed: u64, chunk: u64, _focus: &str, _tier: Tier) -> Vec<(String, String)> {
        // configuration per worker process: concurrency limit of range gets
        let mut rng = Rng::stream(seed, chunk, "recon-config");
        vec![("HF_XET_NUM_CONCURRENT_RANGE_GETS".into(), rng.pick(&[1usize, 2, 3, 16]).to_string())]
    }
    fn gen_plan(&self, seed: u64, run: u64, _focus: &str, tier: Tier) -> Value {
        serde_json::to_value(gen(seed, run, tier)).unwrap()
    }

    fn execute(&self, plan: &Value, _focus: &str) -> RunReport {
        let p: Plan = serde_json::from_value(plan.clone()).expect("recon plan");
        let mut rep = RunReport::default();
        let built: Arc<Vec<XData>> = Arc::new(p.xorbs.iter().map(build_xorb).collect());
        // expected output
        let mut cat: Vec<u8> = Vec::new();
        for t in &p.terms {
            for c in &built[t.xorb].chunks[t.a as usize..t.b as usize] {
                cat.extend_from_slice(c);
            }
        }
        let off = p.offset_into_first as usize;
        let want: Vec<u8> = match p.range_len {
            None => cat[off.min(cat.len())..].to_vec(),
            Some(l) => cat[off..(off + l as usize).min(cat.len())].to_vec(),
        };
        // the "server response"
        let mut routes = HashMap::new();
        let mut fetch_info: HashMap<HexMerkleHash, Vec<CASReconstructionFetchInfo>> = HashMap::new();
        for (xi, x) in p.xorbs.iter().enumerate() {
            let hx: HexMerkleHash = m_of(&built[xi].hash).into();
            let mut v = Vec::new();
            for (k, (a, b)) in x.fetch.iter().enumerate() {
                let url = format!("http://blob.sim/x{xi}/f{k}?range={a}-{b}");
                routes.insert(url.clone(), (xi, *a, *b));
                let start: usize = built[xi].ser[..*a as usize].iter().map(|s| s.len()).sum();
                let len: usize = built[xi].ser[*a as usize..*b as usize].iter().map(|s| s.len()).sum();
                v.push(CASReconstructionFetchInfo {
                    range: ChunkRange { start: *a, end: *b },
                    url,
                    url_range: HttpRange { start: start as u32, end: (start + len - 1) as u32 },
                });
            }
            fetch_info.insert(hx, v);
        }
        let terms: Vec<CASReconstructionTerm> = p
            .terms
            .iter()
            .map(|t| CASReconstructionTerm {
                hash: m_of(&built[t.xorb].hash).into(),
                unpacked_length: built[t.xorb].chunks[t.a as usize..t.b as usize].iter().map(|c| c.len() as u32).sum(),
                range: ChunkRange { start: t.a, end: t.b },
            })
            .collect();
        let fetch_info = Arc::new(fetch_info);
        let dir = scratch_dir("r");
        let _guard = ScratchGuard(dir.clone());
        let cache: Option<Arc<dyn ChunkCache>> = match p.cache_mode % 3 {
            0 => None,
            m => {
                let total_ser: u64 = built.iter().map(|x| x.chunks.iter().map(|c| c.len() as u64 + 8).sum::<u64>()).sum();
                let biggest_fetch: u64 = p
                    .xorbs
                    .iter()
                    .enumerate()
                    .flat_map(|(xi, x)| {
                        let built = built.clone();
                        x.fetch.clone().into_iter().map(move |(a, b)| built[xi].chunks[a as usize..b as usize].iter().map(|c| c.len() as u64).sum::<u64>() + 4 * (b - a + 2) as u64)
                    })
                    .max()
                    .unwrap_or(1);
                let cap = if m == 1 { 4 * total_ser + 4096 } else { biggest_fetch + 64 };
                match DiskCache::initialize(&CacheConfig { cache_directory: dir.join("cache"), cache_size: cap }) {
                    Ok(c) => Some(Arc::new(c)),
                    Err(_) => None,
                }
            },
        };
        let tstate = Arc::new(Mutex::new(TState::default()));
        let transport = Arc::new(SimTransport {
            routes,
            data: built.clone(),
            st: tstate.clone(),
            schedule_seed: p.schedule_seed,
            latency_mode: p.latency_mode,
            frag_mode: p.frag_mode,
        });
        let hc = http_client();
        let rt = tokio::runtime::Builder::new_current_thread().enable_all().start_paused(true).build().unwrap();
        let byte_range = p.range_len.map(|l| FileRange { start: 1000, end: 1000 + l });
        let passes = p.passes.clone();
        let offset = p.offset_into_first;
        let dir2 = dir.clone();
        let sched_seed = p.schedule_seed;
        let results: Vec<(bool, Result<u64, String>, Vec<u8>, u64)> = rt.block_on(async move {
            let start = tokio::time::Instant::now();
            let prev = verif_transport::install(Some(transport));
            // the cache's eviction draw must come from the seed as well
            let hprev = utils::verif::install(Some(Arc::new(SeededDraws(Mutex::new(Rng::new(sched_seed ^ 0xE71C7))))));
            let tp = xet_threadpool::ThreadPool::from_current_runtime();
            let client = RemoteClient::verif_new(tp, hc, cache);
            let mut out = Vec::new();
            for (pi, parallel) in passes.iter().enumerate() {
                let path = dir2.join(format!("out{pi}"));
                let provider = OutputProvider::File(FileProvider::new(path.clone()));
                let fut = async {
                    if *parallel {
                        client.reconstruct_file_to_writer_parallel(terms.clone(), fetch_info.clone(), offset, byte_range, &provider, None).await
                    } else {
                        client.reconstruct_file_to_writer(terms.clone(), fetch_info.clone(), offset, byte_range, &provider, None).await
                    }
                };
                let r = match tokio::time::timeout(Duration::from_secs(30 * 24 * 3600), fut).await {
                    Ok(r) => r.map_err(|e| e.to_string()),
                    Err(_) => Err("HUNG".to_string()),
                };
                let data = std::fs::read(&path).unwrap_or_default();
                out.push((*parallel, r, data, start.elapsed().as_millis() as u64));
            }
            verif_transport::install(prev);
            utils::verif::install(hprev);
            out
        });
        drop(rt);
        let ts = tstate.lock().unwrap();
        let mut fetches_before = 0u64;
        for (pi, (parallel, r, data, ms)) in results.iter().enumerate() {
            rep.sim_ms = *ms;
            let mode = if *parallel { "parallel" } else { "sequential" };
            let temp = if pi == 0 { "cold" } else { "warm" };
            match r {
                Err(e) if e == "HUNG" => rep.violate("C17.b", &format!("{mode}-hung"), format!("pass {pi} ({mode}, {temp}) never completed")),
                Err(e) => rep.violate("C17.a", &format!("{mode}-error"), format!("pass {pi} ({mode}, {temp}, cache {}): {e}", p.cache_mode)),
                Ok(n) => {
                    if *data != want {
                        let first = data.iter().zip(want.iter()).position(|(a, b)| a != b).unwrap_or(data.len().min(want.len()));
                        rep.violate(
                            "C17.a",
                            &format!("{mode}-output"),
                            format!("pass {pi} ({mode}, {temp}, cache {}): output {} bytes, want {} bytes, first difference at {first}; {} terms, offset {}, range {:?}", p.cache_mode, data.len(), want.len(), p.terms.len(), p.offset_into_first, p.range_len),
                        );
                    }
                    if *n != want.len() as u64 || data.len() as u64 != *n {
                        rep.violate("C17.b", &format!("{mode}-length"), format!("pass {pi} ({mode}): returned {n}, wrote {} bytes, requested {} bytes", data.len(), want.len()));
                    }
                },
            }
            let _ = fetches_before;
            fetches_before = ts.fetches;
        }
        // C17.c is implied by all passes equalling `want`; cross-check directly as well
        for w in results.windows(2) {
            if w[0].1.is_ok() && w[1].1.is_ok() && w[0].2 != w[1].2 {
                rep.violate("C17.c", "passes-differ", "two passes over the same plan produced different output".into());
            }
        }
        let n_term_fetch_needs = p.terms.len() as u64 * p.passes.len() as u64;
        rep.count("terms", p.terms.len() as u64);
        rep.count("transport_fetches", ts.fetches);
        rep.count("fault:stream_fragments", ts.fragments);
        rep.count("probe:fetches_saved_by_cache_or_coalescing", n_term_fetch_needs.saturating_sub(ts.fetches));
        let reordered = ts.fetch_order != ts.complete_order;
        rep.count("probe:fetches_completed_out_of_order", reordered as u64);
        rep.count("probe:cache_enabled", (p.cache_mode % 3 != 0) as u64);
        let mid = p.range_len.is_some() && p.offset_into_first > 0;
        rep.nontrivial = p.terms.len() >= 3 && reordered && mid;
        let mut w: Vec<u64> = vec![p.terms.len() as u64, p.cache_mode as u64, p.latency_mode as u64, p.passes.len() as u64, p.offset_into_first, p.range_len.unwrap_or(u64::MAX)];
        w.extend(ts.complete_order.iter().copied());
        rep.signature = mix(&w);
        rep.sample = Some(json!({"xorbs": p.xorbs.iter().map(|x| json!({"chunks": x.n_chunks, "scheme": x.scheme, "fetch": x.fetch})).collect::<Vec<_>>(), "terms": p.terms.iter().take(10).map(|t| json!([t.xorb, t.a, t.b])).collect::<Vec<_>>(), "n_terms": p.terms.len(), "offset": p.offset_into_first, "range_len": p.range_len, "cache_mode": p.cache_mode, "passes(parallel?)": p.passes, "latency_mode": p.latency_mode}));
        rep
    }

    fn shrink(&self, plan: &Value) -> Vec<Value> {
        let p: Plan = serde_json::from_value(plan.clone()).expect("recon plan");
        let mut out: Vec<Plan> = Vec::new();
        if p.terms.len() > 1 {
            // dropping the last term is always consistent unless a range needs it: recompute range to "whole"
            let mut q = p.clone();
            q.terms.pop();
            q.range_len = None;
            q.offset_into_first = 0;
            out.push(q);
            let mut q = p.clone();
            q.terms.remove(0);
            q.range_len = None;
            q.offset_into_first = 0;
            out.push(q);
        }
        if p.range_len.is_some() {
            let mut q = p.clone();
            q.range_len = None;
            out.push(q);
        }
        if p.offset_into_first > 0 && p.range_len.is_none() {
            let mut q = p.clone();
            q.offset_into_first = 0;
            out.push(q);
        }
        if p.passes.len() > 1 {
            let mut q = p.clone();
            q.passes.pop();
            out.push(q);
            let mut q = p.clone();
            q.passes.remove(0);
            out.push(q);
        }
        if p.cache_mode != 0 {
            let mut q = p.clone();
            q.cache_mode = 0;
            out.push(q);
        }
        if p.latency_mode != 0 {
            let mut q = p.clone();
            q.latency_mode = 0;
            out.push(q);
        }
        if p.frag_mode != 0 {
            let mut q = p.clone();
            q.frag_mode = 0;
            out.push(q);
        }
        for (i, x) in p.xorbs.iter().enumerate() {
            if x.scheme != 0 {
                let mut q = p.clone();
                q.xorbs[i].scheme = 0;
                out.push(q);
            }
            if x.len_style != 0 {
                let mut q = p.clone();
                q.xorbs[i].len_style = 0;
                out.push(q);
            }
        }
        out.into_iter().map(|q| serde_json::to_value(q).unwrap()).collect()
    }
    fn rule(&self, _focus: &str) -> String {
        "Each run: 1-4 virtual xorbs (distinct content per chunk, four compression settings), a plan of 1-40 terms (repeated xorbs and terms, terms of differing sizes), fetch infos in four styles (exact, whole xorb, widened, windows with decoys), first-term offset, optional byte range (starting/ending mid-term, 1-3 bytes, to the end), cache none / large / one-item (evictions), 2-3 passes mixing the sequential and the parallel writer on one client (cold then warm); the simulated transport serves each fetch after a seeded latency as a seeded fragment stream. Non-trivial: >= 3 terms, fetches completed in another order than issued, and the range starts mid-term. Distinct: hash of (terms, cache mode, latency mode, passes, offset, range, completion order).".into()
    }
    fn real_vs_stub(&self) -> Value {
        json!({"real": ["cas_client::RemoteClient::{reconstruct_file_to_writer, reconstruct_file_to_writer_parallel}, get_one_term, TermWriteTask", "utils::singleflight", "chunk_cache::DiskCache", "cas_object chunk (de)serialisation incl. compression", "OutputProvider::File positioned writers"], "simulated": ["the CAS server (reconstruction plan and fetch infos are produced by the harness)", "blob-store HTTP: byte stream per fetch range after a seeded latency, cut into fragments (H3)", "task completion order (paused clock)"], "not_run": ["reqwest / retry middleware / real sockets"]})
    }
    fn assumptions(&self, _focus: &str) -> Vec<String> {
        vec!["Every fetch info has its own URL (as with range-signed blob URLs); two different ranges behind one URL would be coalesced by the URL-keyed singleflight and are not generated.".into()]
    }
}
