//! `session` engine: the whole upload/download pipeline (real chunker, deduper, aggregator, upload session, shard
//! manager, LocalClient store) on a single-threaded tokio runtime with a paused clock; every store call and every
//! feed call is a gate whose latency comes from the schedule stream. Serves C01 C02 C03 C11 C14 C15 C16.

use std::collections::{HashMap, HashSet};
use std::path::{Path, PathBuf};
use std::sync::{Arc, Mutex};
use std::time::Duration;

use serde::{Deserialize, Serialize};
use serde_json::{json, Value};

use crate::content::{gen_content, ContentSpec};
use crate::core::*;
use crate::prng::{fragment_sizes, label_hash, mix, Rng};
use crate::refmodel::*;
use crate::simstore::*;

pub const TARGET: usize = 64 * 1024;

pub struct SessionEngine;

// ------------------------------------------------------------------------------------------------
// plan

#[derive(Clone, Debug, Serialize, Deserialize, PartialEq)]
pub enum Part {
    /// indices into the run's atom pool
    Atoms(Vec<u32>),
    Gen(ContentSpec),
}

#[derive(Clone, Debug, Serialize, Deserialize, PartialEq)]
pub struct FileSpec {
    pub parts: Vec<Part>,
    pub feed_style: u32,
    pub feed_seed: u64,
    pub start_delay_ms: u64,
}

#[derive(Clone, Debug, Serialize, Deserialize, PartialEq)]
pub struct SessionSpec {
    pub cache_id: u8,
    pub salt_id: u8,
    pub global_dedup: bool,
    pub with_file_info: bool,
    pub files: Vec<FileSpec>,
    /// the session runs as *another process* sharing the shard cache directory of `cache_id`: it has its own manager
    /// objects (own directory holding a copy of the shared cache as of its start); the shard files it adds appear in
    /// the shared directory afterwards, without any in-process registration
    #[serde(default)]
    pub foreign: bool,
    /// fault: before this session starts, every shard file of its shard cache directory is deleted (a cache clear or
    /// an expiry clean-up by another process); managers cached in this process still have the files registered
    #[serde(default)]
    pub clear_cache_before: bool,
    /// the session is a dry run (FileUploadSession::dry_run): everything is computed, nothing is stored, and nothing
    /// it produced may influence later sessions
    #[serde(default)]
    pub dry_run: bool,
}

#[derive(Clone, Debug, Serialize, Deserialize, PartialEq)]
pub struct Plan {
    pub pool_seed: u64,
    /// 0 random data (atoms ~64 KiB), 1 early-match data (atoms ~8 KiB), 2 both
    pub pool_kind: u32,
    pub pool_bytes: usize,
    pub sessions: Vec<SessionSpec>,
    pub latency_mode: u32,
    pub schedule_seed: u64,
    pub faults: Vec<FaultSpec>,
    /// C16: run once fault-free, then once per store call with that call failing
    pub enumerate_faults: bool,
    pub ranges_per_file: u32,
    pub range_seed: u64,
    /// C11 only: instead of a world of sessions, concurrent callers of one shard manager (engines/mgrmt.rs)
    #[serde(default)]
    pub mgr: Option<crate::engines::mgrmt::MgrPlan>,
}

pub fn make_pool(p: &Plan) -> Vec<Vec<u8>> {
    let mut atoms: Vec<Vec<u8>> = Vec::new();
    let mut add = |kind: u32, bytes: usize, seed: u64| {
        let data = gen_content(&ContentSpec { kind, seed, len: bytes });
        let lens = ref_chunker(&data, TARGET);
        let mut pos = 0;
        for (i, l) in lens.iter().enumerate() {
            if i + 1 < lens.len() {
                atoms.push(data[pos..pos + l].to_vec());
            }
            pos += l;
        }
    };
    match p.pool_kind % 3 {
        0 => add(0, p.pool_bytes, p.pool_seed),
        1 => add(5, p.pool_bytes / 3, p.pool_seed),
        _ => {
            add(0, p.pool_bytes / 2, p.pool_seed);
            add(5, p.pool_bytes / 6, p.pool_seed ^ 1);
        },
    }
    // identical atoms (possible in low-entropy data) are fine: ground truth is recomputed from the bytes
    if atoms.is_empty() {
        atoms.push(gen_content(&ContentSpec { kind: 1, seed: p.pool_seed, len: 2 * TARGET }));
    }
    atoms
}

pub fn file_bytes(f: &FileSpec, pool: &[Vec<u8>]) -> Vec<u8> {
    let mut out = Vec::new();
    for part in &f.parts {
        match part {
            Part::Atoms(ix) => {
                for &i in ix {
                    out.extend_from_slice(&pool[i as usize % pool.len()]);
                }
            },
            Part::Gen(c) => out.extend_from_slice(&gen_content(c)),
        }
    }
    out
}

pub fn salt_of(id: u8) -> [u8; 32] {
    if id == 0 {
        [0u8; 32]
    } else {
        let mut s = [0u8; 32];
        Rng::new(0x5A17 + id as u64).fill(&mut s);
        s
    }
}

fn env_usize(name: &str, default: usize) -> usize {
    std::env::var(name).ok().and_then(|s| s.parse().ok()).unwrap_or(default)
}

/// Plan generator. `focus` biases the workload towards the behaviour behind that property.
pub fn gen(seed: u64, run: u64, focus: &str, tier: Tier) -> Plan {
    let mut rng = Rng::stream(seed, run, "session");
    let max_xorb_chunks = env_usize("HF_XET_MAX_XORB_CHUNKS", 8192);
    let scale = match tier {
        Tier::Quick => 1usize,
        Tier::Thorough => 2,
    };
    let pool_kind = match focus {
        "C14" => rng.weighted(&[1, 6, 2]) as u32,
        _ => rng.weighted(&[4, 3, 3]) as u32,
    };
    let pool_bytes = (rng.log_range(300_000, 1_500_000) as usize) * scale;
    let mut plan = Plan {
        pool_seed: rng.next_u64(),
        pool_kind,
        pool_bytes,
        sessions: Vec::new(),
        latency_mode: rng.weighted(&[2, 4, 2, 2, 1]) as u32,
        schedule_seed: rng.next_u64(),
        faults: Vec::new(),
        enumerate_faults: false,
        ranges_per_file: if focus == "C01" { rng.range(2, 8) as u32 } else { rng.range(0, 2) as u32 },
        range_seed: rng.next_u64(),
        mgr: None,
    };
    // approximate pool size (number of atoms) without building it
    let approx_atoms: u32 = match pool_kind {
        0 => (pool_bytes / 70_000).max(2) as u32,
        1 => (pool_bytes / 3 / 9_000).max(2) as u32,
        _ => (pool_bytes / 2 / 70_000 + pool_bytes / 6 / 9_000).max(2) as u32,
    };
    let n_sessions = match focus {
        "C11" => rng.range(2, 4),
        "C16" => rng.range(1, 2),
        _ => rng.weighted(&[3, 4, 2, 1]) as u64 + 1,
    } as usize;
    let multi_cache = rng.chance(1, 4);
    let multi_salt = rng.chance(1, 5) || (focus == "C03" && rng.chance(1, 2));
    let mut earlier_files: Vec<FileSpec> = Vec::new();
    let mut budget_bytes: i64 = (3_000_000 * scale) as i64;
    for si in 0..n_sessions {
        let n_files = match focus {
            "C15" => rng.weighted(&[1, 2, 3, 3, 2, 2, 1, 1]) + 1,
            _ => rng.weighted(&[3, 3, 2, 2, 1, 1]) + 1,
        };
        let mut files = Vec::new();
        for _ in 0..n_files {
            let mut parts: Vec<Part> = Vec::new();
            let shape = match focus {
                "C11" if si > 0 => rng.weighted(&[0, 0, 0, 5, 3, 2, 0, 0, 0]),
                "C11" => rng.weighted(&[6, 0, 0, 0, 0, 0, 1, 1, 0]),
                "C14" => rng.weighted(&[2, 1, 1, 2, 2, 1, 1, 0, 8]),
                "C03" => rng.weighted(&[3, 1, 1, 5, 2, 1, 1, 1, 1]),
                _ => rng.weighted(&[4, 1, 1, 3, 2, 2, 1, 1, 2]),
            };
            match shape {
                0 => {
                    // fresh-ish run of atoms
                    let n = rng.log_range(1, 40) as usize;
                    let start = rng.below(approx_atoms as u64) as u32;
                    parts.push(Part::Atoms((0..n as u32).map(|i| start + i).collect()));
                    if rng.chance(1, 2) {
                        parts.push(Part::Gen(ContentSpec { kind: 0, seed: rng.next_u64(), len: rng.log_range(1, 100_000) as usize }));
                    }
                },
                1 => {
                    // tiny / degenerate
                    let len = *rng.pick(&[0usize, 0, 1, 2, 63, 64, 65, 1000, 8127, 8128, 8129, 8191, 8192, 8193]);
                    parts.push(Part::Gen(ContentSpec { kind: rng.below(2) as u32, seed: rng.next_u64(), len }));
                },
                2 => {
                    // constant bytes: maximum-size chunks
                    let len = rng.log_range(100_000, 600_000) as usize;
                    parts.push(Part::Gen(ContentSpec { kind: 1, seed: rng.next_u64() % 3, len }));
                },
                3 if !earlier_files.is_empty() => {
                    // twin of an earlier file (this or an earlier session), different feed partition
                    let t = rng.pick(&earlier_files).clone();
                    parts = t.parts;
                },
                4 if !earlier_files.is_empty() => {
                    // earlier file extended
                    let t = rng.pick(&earlier_files).clone();
                    parts = t.parts;
                    let n = rng.log_range(1, 10) as usize;
                    parts.push(Part::Atoms((0..n).map(|_| rng.below(approx_atoms as u64) as u32).collect()));
                    if rng.chance(1, 3) {
                        parts.insert(0, Part::Atoms(vec![rng.below(approx_atoms as u64) as u32]));
                    }
                },
                5 if !earlier_files.is_empty() => {
                    // recombination: atoms of earlier files shuffled together
                    let mut ix: Vec<u32> = Vec::new();
                    for f in earlier_files.iter().take(3) {
                        for p in &f.parts {
                            if let Part::Atoms(a) = p {
                                ix.extend_from_slice(a);
                            }
                        }
                    }
                    if ix.is_empty() {
                        ix.push(0);
                    }
                    rng.shuffle(&mut ix);
                    ix.truncate(rng.log_range(1, 40) as usize);
                    parts.push(Part::Atoms(ix));
                },
                6 => {
                    // repeats inside one file (in-xorb self references)
                    let k = rng.range(1, 4) as u32;
                    let reps = rng.range(2, 10) as usize;
                    let start = rng.below(approx_atoms as u64) as u32;
                    let mut ix = Vec::new();
                    for _ in 0..reps {
                        for j in 0..k {
                            ix.push(start + j);
                        }
                        if rng.chance(1, 3) {
                            ix.push(rng.below(approx_atoms as u64) as u32);
                        }
                    }
                    parts.push(Part::Atoms(ix));
                },
                7 => {
                    // run sized around the xorb chunk limit
                    let n = (max_xorb_chunks.min(48) as i64 + rng.range(0, 2) as i64 - 1).max(1) as usize;
                    let start = rng.below(approx_atoms as u64) as u32;
                    parts.push(Part::Atoms((0..n as u32).map(|i| start + i).collect()));
                },
                8 => {
                    // fragmentation pattern: alternate known (old) and unknown (new) short runs
                    let n_groups = rng.log_range(4, 60) as usize;
                    let old_run = rng.range(1, 3) as u32;
                    let new_run = rng.range(1, 4) as u32;
                    let old_base = rng.below(approx_atoms as u64 / 2 + 1) as u32;
                    let mut ix = Vec::new();
                    let mut fresh = approx_atoms / 2 + rng.below(approx_atoms as u64 / 2 + 1) as u32;
                    for g in 0..n_groups as u32 {
                        for j in 0..new_run {
                            ix.push(fresh + j);
                        }
                        fresh += new_run;
                        // jump around in the old region so the ranges are not contiguous
                        let o = old_base + (g * 7) % (approx_atoms / 2 + 1);
                        for j in 0..old_run {
                            ix.push(o + j);
                        }
                    }
                    parts.push(Part::Atoms(ix));
                },
                _ => {
                    let n = rng.log_range(1, 20) as usize;
                    parts.push(Part::Atoms((0..n).map(|_| rng.below(approx_atoms as u64) as u32).collect()));
                },
            }
            let f = FileSpec {
                parts,
                feed_style: rng.below(6) as u32,
                feed_seed: rng.next_u64(),
                start_delay_ms: if rng.chance(1, 2) { 0 } else { rng.log_range(1, 5000) },
            };
            // crude size estimate to keep runs cheap
            let est: i64 = f
                .parts
                .iter()
                .map(|p| match p {
                    Part::Atoms(a) => a.len() as i64 * if pool_kind == 1 { 9_000 } else { 45_000 },
                    Part::Gen(c) => c.len as i64,
                })
                .sum();
            if budget_bytes - est < 0 && !(files.is_empty() && si == 0) {
                continue;
            }
            budget_bytes -= est;
            earlier_files.push(f.clone());
            files.push(f);
        }
        if files.is_empty() {
            files.push(FileSpec {
                parts: vec![Part::Atoms(vec![rng.below(approx_atoms as u64) as u32])],
                feed_style: 0,
                feed_seed: 0,
                start_delay_ms: 0,
            });
        }
        plan.sessions.push(SessionSpec {
            cache_id: if multi_cache { rng.below(2) as u8 } else { 0 },
            salt_id: if multi_salt { rng.below(2) as u8 } else { 0 },
            global_dedup: rng.chance(1, 2),
            with_file_info: rng.chance(1, 3),
            files,
            foreign: false,
            clear_cache_before: false,
            dry_run: false,
        });
    }
    match focus {
        "C16" => {
            plan.enumerate_faults = true;
            // a dry run before a real session (dry-run calls never reach the store, so the enumeration of store calls
            // is unaffected)
            if plan.sessions.len() >= 2 {
                let mut drng = Rng::stream(seed, run, "session-dry");
                if drng.chance(1, 3) {
                    plan.sessions[0].dry_run = true;
                }
            }
        },
        _ => {},
    }
    if focus == "C11" || focus == "C01" {
        let mut mrng = Rng::stream(seed, run, "session-mgr");
        if mrng.chance(1, if focus == "C11" { 5 } else { 10 }) {
            plan.sessions.clear();
            plan.mgr = Some(crate::engines::mgrmt::gen_mgr(&mut mrng));
            return plan;
        }
    }
    // another process sharing a shard cache directory: one session in five (never in the fault-enumerating runs)
    if focus != "C16" && plan.sessions.len() >= 2 {
        let mut frng = Rng::stream(seed, run, "session-foreign");
        for ss in plan.sessions.iter_mut() {
            if frng.chance(1, if focus == "C11" { 4 } else { 8 }) {
                ss.foreign = true;
            }
        }
        for ss in plan.sessions.iter_mut().skip(1) {
            if frng.chance(1, if focus == "C11" { 6 } else { 12 }) {
                ss.clear_cache_before = true;
            }
        }
        // a dry run somewhere before the last session
        let n = plan.sessions.len();
        for ss in plan.sessions.iter_mut().take(n - 1) {
            if !ss.foreign && frng.chance(1, 8) {
                ss.dry_run = true;
            }
        }
    }
    plan
}

// ------------------------------------------------------------------------------------------------
// world execution

#[derive(Clone, Debug, Default)]
pub struct Metrics {
    pub total_bytes: usize,
    pub deduped_bytes: usize,
    pub new_bytes: usize,
    pub deduped_bytes_by_global_dedup: usize,
    pub defrag_prevented_dedup_bytes: usize,
    pub total_chunks: usize,
    pub deduped_chunks: usize,
    pub new_chunks: usize,
    pub deduped_chunks_by_global_dedup: usize,
    pub defrag_prevented_dedup_chunks: usize,
    pub xorb_bytes_uploaded: usize,
    pub shard_bytes_uploaded: usize,
    pub total_bytes_uploaded: usize,
}

impl From<&deduplication::DeduplicationMetrics> for Metrics {
    fn from(m: &deduplication::DeduplicationMetrics) -> Self {
        Metrics {
            total_bytes: m.total_bytes,
            deduped_bytes: m.deduped_bytes,
            new_bytes: m.new_bytes,
            deduped_bytes_by_global_dedup: m.deduped_bytes_by_global_dedup,
            defrag_prevented_dedup_bytes: m.defrag_prevented_dedup_bytes,
            total_chunks: m.total_chunks,
            deduped_chunks: m.deduped_chunks,
            new_chunks: m.new_chunks,
            deduped_chunks_by_global_dedup: m.deduped_chunks_by_global_dedup,
            defrag_prevented_dedup_chunks: m.defrag_prevented_dedup_chunks,
            xorb_bytes_uploaded: m.xorb_bytes_uploaded,
            shard_bytes_uploaded: m.shard_bytes_uploaded,
            total_bytes_uploaded: m.total_bytes_uploaded,
        }
    }
}

#[derive(Clone, Debug, Default)]
pub struct FileOutcome {
    pub data: Arc<Vec<u8>>,
    pub n_feed_calls: usize,
    pub feed_err: Option<String>,
    pub finish: Option<Result<(String, u64, Metrics, String), String>>, // (hash hex, size, metrics, pointer text)
    pub feed_start_seq: u64,
    pub feed_end_seq: u64,
    /// (description, outcome) of every download comparison made for this file
    pub dl_checks: Vec<(String, Result<(), String>)>,
}

#[derive(Clone, Debug, Default)]
pub struct SessionOutcome {
    pub new_err: Option<String>,
    pub files: Vec<FileOutcome>,
    pub finalize: Option<Result<Metrics, String>>,
    pub file_infos: Option<usize>,
    pub hung: bool,
    pub put_range: (usize, usize),
    pub shard_range: (usize, usize),
}

pub struct World {
    pub dir: PathBuf,
    pub sessions: Vec<SessionOutcome>,
    pub st: Arc<Mutex<StoreState>>,
    pub store_xorb_dir: PathBuf,
    pub store: Arc<SimStore>,
    pub configs: Vec<Arc<data::configurations::TranslatorConfig>>,
    pub sim_ms: u64,
}

static RUN_COUNTER: std::sync::atomic::AtomicU64 = std::sync::atomic::AtomicU64::new(0);

pub fn scratch_dir(tag: &str) -> PathBuf {
    let base = if Path::new("/dev/shm").is_dir() { PathBuf::from("/dev/shm") } else { std::env::temp_dir() };
    let n = RUN_COUNTER.fetch_add(1, std::sync::atomic::Ordering::Relaxed);
    let d = base.join(format!("xsim-{}-{}-{}", std::process::id(), tag, n));
    let _ = std::fs::remove_dir_all(&d);
    std::fs::create_dir_all(&d).expect("scratch dir");
    d
}

pub struct ScratchGuard(pub PathBuf);
/// heed keeps every opened LMDB environment alive in a process-wide table; LocalClient never closes its
/// global-dedup environment, so a worker that creates thousands of stores runs out of resources. Taking the table's
/// reference out lets the environment close when its LocalClient is dropped.
pub fn release_lmdb(store_dir: &Path) {
    let p = store_dir.join("global_dedup_lookup.db");
    if p.is_dir() {
        if let Ok(env) = heed::EnvOpenOptions::new().open(&p) {
            let _ = env.prepare_for_closing();
        }
    }
}

impl Drop for ScratchGuard {
    fn drop(&mut self) {
        release_lmdb(&self.0.join("store"));
        // LocalClient marks xorbs read-only; removal of the directory entries still works (we own the dirs)
        let _ = std::fs::remove_dir_all(&self.0);
    }
}

fn helper_runtime() -> &'static tokio::runtime::Runtime {
    static RT: std::sync::OnceLock<tokio::runtime::Runtime> = std::sync::OnceLock::new();
    RT.get_or_init(|| {
        tokio::runtime::Builder::new_multi_thread()
            .worker_threads(1)
            .enable_all()
            .build()
            .expect("helper runtime")
    })
}

struct ClockHooks {
    start: tokio::time::Instant,
    /// H8: what happens before an acquisition of one of the session's asynchronous locks. Derived from the
    /// schedule seed (no plan field, so older replay files stay valid): 0 = nothing (as without the hook),
    /// 1 = a plain yield before one acquisition in four, 2 = a simulated wait of 1..200 ms before one in three
    /// (other tasks whose store calls complete meanwhile run first), 3 = a wait before every acquisition.
    lock_mode: u64,
    lock_rng: Mutex<Rng>,
    st: Arc<Mutex<StoreState>>,
}
impl utils::verif::Hooks for ClockHooks {
    fn delay(&self, label: &'static str) -> Option<Duration> {
        if label != "tsync:mutex_lock" || self.lock_mode == 0 {
            return None;
        }
        let mut r = self.lock_rng.lock().unwrap();
        let d = match self.lock_mode {
            1 => r.chance(1, 4).then_some(Duration::ZERO),
            2 => r.chance(1, 3).then(|| Duration::from_millis(r.range(1, 200))),
            _ => Some(Duration::from_millis(r.range(1, 50))),
        };
        if d.is_some() {
            self.st.lock().unwrap().lock_delays += 1;
        }
        d
    }
    fn now_secs(&self) -> Option<u64> {
        Some(1_750_000_000 + self.start.elapsed().as_secs())
    }
    fn stamp_mtime(&self, path: &Path) {
        let t = std::time::UNIX_EPOCH + Duration::from_millis(1_750_000_000_000 + self.start.elapsed().as_millis() as u64);
        if let Ok(f) = std::fs::OpenOptions::new().write(true).open(path) {
            let _ = f.set_modified(t);
        }
    }
}

fn make_config(dir: &Path, cache_id: u8, salt_id: u8, global_dedup: bool) -> Arc<data::configurations::TranslatorConfig> {
    make_config_in(dir, &format!("client{cache_id}"), salt_id, global_dedup)
}

fn plain_files(dir: &Path) -> Vec<(PathBuf, String)> {
    let mut v: Vec<(PathBuf, String)> = std::fs::read_dir(dir)
        .map(|rd| rd.flatten().filter(|e| e.path().is_file()).map(|e| (e.path(), e.file_name().to_string_lossy().to_string())).collect())
        .unwrap_or_default();
    v.sort();
    v
}

fn make_config_in(dir: &Path, client_dir: &str, salt_id: u8, global_dedup: bool) -> Arc<data::configurations::TranslatorConfig> {
    use data::configurations::*;
    let xet = dir.join(client_dir);
    std::fs::create_dir_all(&xet).unwrap();
    Arc::new(TranslatorConfig {
        data_config: DataConfig {
            endpoint: Endpoint::FileSystem(dir.join("store")),
            compression: Default::default(),
            auth: None,
            prefix: "default".into(),
            cache_config: data::CacheConfig {
                cache_directory: xet.join("cache"),
                cache_size: 0,
            },
            staging_directory: None,
        },
        shard_config: ShardConfig {
            prefix: "default-merkledb".into(),
            cache_directory: xet.join("shard-cache"),
            session_directory: xet.join("shard-session"),
            global_dedup_policy: if global_dedup { GlobalDedupPolicy::Always } else { GlobalDedupPolicy::Never },
            repo_salt: salt_of(salt_id),
        },
        repo_info: None,
    })
}

pub fn run_world(plan: &Plan, faults: &[FaultSpec], trace: bool) -> (World, ScratchGuard) {
    let dir = scratch_dir("s");
    let guard = ScratchGuard(dir.clone());
    let store_dir = dir.join("store");
    let staging = dir.join("staging");
    std::fs::create_dir_all(&staging).unwrap();
    let sd = store_dir.clone();
    let st2 = staging.clone();
    // LocalClient::new needs block_in_place => construct it on a multi-threaded helper runtime
    let local = helper_runtime()
        .block_on(async move { tokio::spawn(async move { cas_client::LocalClient::new(sd, Some(st2)) }).await })
        .expect("join")
        .expect("LocalClient::new");
    let st = Arc::new(Mutex::new(StoreState {
        schedule_seed: plan.schedule_seed,
        latency_mode: plan.latency_mode,
        trace_on: trace,
        limits: (*deduplication::constants::MAX_XORB_BYTES, *deduplication::constants::MAX_XORB_CHUNKS),
        ..Default::default()
    }));
    {
        let mut s = st.lock().unwrap();
        for f in faults {
            s.faults.insert((f.kind.clone(), f.index), f.mode);
        }
    }
    let store = Arc::new(SimStore {
        inner: Arc::new(local),
        st: st.clone(),
    });
    let pool = make_pool(plan);
    let rt = tokio::runtime::Builder::new_current_thread()
        .enable_all()
        .start_paused(true)
        .build()
        .expect("sim runtime");
    let mut world = World {
        dir: dir.clone(),
        sessions: Vec::new(),
        st: st.clone(),
        store_xorb_dir: store_dir.join("xorbs"),
        store: store.clone(),
        configs: Vec::new(),
        sim_ms: 0,
    };
    let plan2 = plan.clone();
    let (sessions, configs, sim_ms) = rt.block_on(async move {
        let start = tokio::time::Instant::now();
        let lock_mode = mix(&[plan2.schedule_seed, 0x4838]) % 4;
        let prev = utils::verif::install(Some(Arc::new(ClockHooks {
            start,
            lock_mode,
            lock_rng: Mutex::new(Rng::new(mix(&[plan2.schedule_seed, 0x4839]))),
            st: st.clone(),
        })));
        let mut outs = Vec::new();
        let mut configs = Vec::new();
        for (si, ss) in plan2.sessions.iter().enumerate() {
            let shared_cache = make_config(&dir, ss.cache_id, ss.salt_id, ss.global_dedup).shard_config.cache_directory.clone();
            let cfg = if ss.foreign {
                make_config_in(&dir, &format!("client{}-process{si}", ss.cache_id), ss.salt_id, ss.global_dedup)
            } else {
                make_config(&dir, ss.cache_id, ss.salt_id, ss.global_dedup)
            };
            std::fs::create_dir_all(&cfg.shard_config.cache_directory).unwrap();
            std::fs::create_dir_all(&shared_cache).unwrap();
            if ss.clear_cache_before {
                for (path, name) in plain_files(&shared_cache) {
                    if name.ends_with(".mdb") {
                        let _ = std::fs::remove_file(&path);
                    }
                }
                st.lock().unwrap().log(format!("shard cache of client {} cleared before session {si}", ss.cache_id));
            }
            if ss.foreign {
                // the other process sees what the shared directory holds when it starts
                for (path, name) in plain_files(&shared_cache) {
                    if name.ends_with(".mdb") && !name.starts_with('.') {
                        let _ = std::fs::copy(&path, cfg.shard_config.cache_directory.join(&name));
                    }
                }
            }
            {
                let mut s = st.lock().unwrap();
                s.session = si;
                s.dry = ss.dry_run;
                s.cache_dir = cfg.shard_config.cache_directory.clone();
                let n = s.seq;
                s.log(format!("session {si} begins at event {n}"));
            }
            configs.push(cfg.clone());
            let put0 = st.lock().unwrap().puts.len();
            let shard0 = st.lock().unwrap().shards.len();
            let mut out = run_session(si, ss, cfg.clone(), store.clone(), st.clone(), &pool, plan2.schedule_seed).await;
            out.put_range = (put0, st.lock().unwrap().puts.len());
            out.shard_range = (shard0, st.lock().unwrap().shards.len());
            if ss.foreign {
                // what the other process added appears in the shared directory (temp name, then rename)
                for (path, name) in plain_files(&cfg.shard_config.cache_directory) {
                    if name.ends_with(".mdb") && !name.starts_with('.') && !shared_cache.join(&name).exists() {
                        let tmp = shared_cache.join(format!(".{name}.other-process"));
                        if std::fs::copy(&path, &tmp).is_ok() {
                            let _ = std::fs::rename(&tmp, shared_cache.join(&name));
                        }
                    }
                }
            }
            let hung = out.hung;
            st.lock().unwrap().dry = false;
            if matches!(out.finalize, Some(Ok(_))) && !ss.dry_run {
                for (fi, fo) in out.files.iter_mut().enumerate() {
                    download_checks(&store, &cfg, &dir, fo, format!("s{si}f{fi}-after-session"), &[]).await;
                }
            }
            outs.push(out);
            if hung {
                break;
            }
            // a pause between sessions
            tokio::time::sleep(Duration::from_secs(60)).await;
        }
        // final pass: every file of every successful session, whole and by ranges
        let n_sessions = outs.len();
        for (si, out) in outs.iter_mut().enumerate() {
            if !matches!(out.finalize, Some(Ok(_))) || plan2.sessions[si].dry_run {
                continue;
            }
            for (fi, fo) in out.files.iter_mut().enumerate() {
                let mut rr = Rng::new(mix(&[plan2.range_seed, si as u64, fi as u64]));
                let ranges = pick_ranges(&mut rr, &fo.data, plan2.ranges_per_file as usize);
                if si + 1 == n_sessions && ranges.is_empty() {
                    continue; // whole-file download right after the last session was already checked
                }
                download_checks(&store, &configs[si], &dir, fo, format!("s{si}f{fi}-final"), &ranges).await;
            }
        }
        utils::verif::install(prev);
        (outs, configs, start.elapsed().as_millis() as u64)
    });
    drop(rt);
    world.sessions = sessions;
    world.configs = configs;
    world.sim_ms = sim_ms;
    (world, guard)
}

async fn run_session(
    si: usize,
    ss: &SessionSpec,
    cfg: Arc<data::configurations::TranslatorConfig>,
    store: Arc<SimStore>,
    st: Arc<Mutex<StoreState>>,
    pool: &[Vec<u8>],
    schedule_seed: u64,
) -> SessionOutcome {
    let mut out = SessionOutcome::default();
    let tp = xet_threadpool::ThreadPool::from_current_runtime();
    let client: Arc<dyn cas_client::Client + Send + Sync> = store.clone();
    let created = if ss.dry_run {
        data::FileUploadSession::verif_new_with_client_dry_run(cfg.clone(), tp, client).await
    } else {
        data::FileUploadSession::verif_new_with_client(cfg.clone(), tp, client).await
    };
    let session = match created {
        Ok(s) => s,
        Err(e) => {
            out.new_err = Some(format!("{e}"));
            return out;
        },
    };
    let mut handles = Vec::new();
    for (fi, f) in ss.files.iter().enumerate() {
        let data = Arc::new(file_bytes(f, pool));
        let mut frng = Rng::new(f.feed_seed);
        let special = [8127usize, 8128, 65536, 131072, 1 << 20];
        let mut frags = fragment_sizes(&mut frng, data.len(), f.feed_style, &special);
        if frags.len() > 64 {
            // keep a run of fine-grained calls, coalesce the rest (bounds the number of simulated feed events)
            let keep = 24;
            let per = (frags.len() - keep).div_ceil(40);
            let mut v: Vec<usize> = frags[..keep].to_vec();
            for g in frags[keep..].chunks(per) {
                v.push(g.iter().sum());
            }
            frags = v;
        }
        let session = session.clone();
        let st = st.clone();
        let delay = f.start_delay_ms;
        let mode = st.lock().unwrap().latency_mode;
        handles.push(tokio::spawn(async move {
            let mut fo = FileOutcome {
                data: data.clone(),
                n_feed_calls: frags.len(),
                ..Default::default()
            };
            if delay > 0 && mode != 0 {
                tokio::time::sleep(Duration::from_millis(delay)).await;
            }
            let mut cleaner = session.start_clean(format!("s{si}f{fi}"));
            drop(session);
            fo.feed_start_seq = st.lock().unwrap().next_seq();
            let mut pos = 0usize;
            for (k, n) in frags.iter().enumerate() {
                // feed gate: lets the scheduler interleave add_data calls of different files
                let r = mix(&[schedule_seed, label_hash("feed"), si as u64, fi as u64, k as u64]);
                match mode {
                    0 => {
                        if r % 4 == 0 {
                            tokio::task::yield_now().await
                        }
                    },
                    _ => tokio::time::sleep(Duration::from_millis(r % 200)).await,
                }
                if let Err(e) = cleaner.add_data(&data[pos..pos + n]).await {
                    fo.feed_err = Some(format!("{e}"));
                    break;
                }
                pos += n;
            }
            if fo.feed_err.is_none() {
                match cleaner.finish().await {
                    Ok((pf, m)) => {
                        fo.finish = Some(Ok((pf.hash_string().clone(), pf.filesize(), Metrics::from(&m), pf.to_string())));
                    },
                    Err(e) => fo.finish = Some(Err(format!("{e}"))),
                }
            } else {
                drop(cleaner);
            }
            fo.feed_end_seq = st.lock().unwrap().next_seq();
            fo
        }));
    }
    // watchdog: far beyond any drawn latency; fires only when nothing else can make progress
    let watchdog = Duration::from_secs(400 * 24 * 3600);
    let joined = tokio::time::timeout(watchdog, async {
        let mut v = Vec::new();
        for h in handles {
            v.push(h.await);
        }
        v
    })
    .await;
    match joined {
        Ok(v) => {
            for r in v {
                match r {
                    Ok(fo) => out.files.push(fo),
                    Err(e) => out.files.push(FileOutcome {
                        feed_err: Some(format!("task panicked: {e}")),
                        ..Default::default()
                    }),
                }
            }
        },
        Err(_) => {
            out.hung = true;
            return out;
        },
    }
    let with_info = ss.with_file_info;
    let fin = tokio::time::timeout(watchdog, async move {
        if with_info {
            session.finalize_with_file_info().await.map(|(m, fi)| (m, Some(fi.len())))
        } else {
            session.finalize().await.map(|m| (m, None))
        }
    })
    .await;
    match fin {
        Ok(Ok((m, n))) => {
            out.finalize = Some(Ok(Metrics::from(&m)));
            out.file_infos = n;
        },
        Ok(Err(e)) => out.finalize = Some(Err(format!("{e}"))),
        Err(_) => out.hung = true,
    }
    out
}


pub fn pick_ranges(rng: &mut Rng, data: &[u8], n: usize) -> Vec<(u64, u64)> {
    let len = data.len() as u64;
    if len == 0 || n == 0 {
        return Vec::new();
    }
    let bounds: Vec<u64> = {
        let mut b = vec![0u64];
        let mut pos = 0u64;
        for l in ref_chunker(data, TARGET) {
            pos += l as u64;
            b.push(pos);
        }
        b
    };
    let mut out = Vec::new();
    for _ in 0..n {
        let r = match rng.below(8) {
            0 => (0, 1),
            1 => (len - 1, len),
            2 => {
                let a = rng.below(len);
                (a, a + 1)
            },
            3 | 4 => {
                // ends on / one past / one before a chunk boundary
                let b1 = *rng.pick(&bounds);
                let b2 = *rng.pick(&bounds);
                let (a, b) = if b1 <= b2 { (b1, b2) } else { (b2, b1) };
                let a = (a as i64 + rng.range(0, 2) as i64 - 1).clamp(0, len as i64 - 1) as u64;
                let b = (b as i64 + rng.range(0, 2) as i64 - 1).clamp(a as i64 + 1, len as i64) as u64;
                (a, b)
            },
            5 => (0, len),
            _ => {
                let a = rng.below(len);
                let b = a + 1 + rng.below(len - a);
                (a, b)
            },
        };
        out.push(r);
    }
    out
}

async fn download_checks(
    store: &Arc<SimStore>,
    cfg: &Arc<data::configurations::TranslatorConfig>,
    dir: &Path,
    fo: &mut FileOutcome,
    tag: String,
    ranges: &[(u64, u64)],
) {
    let Some(Ok((_, _, _, ptr))) = &fo.finish else {
        return;
    };
    let ptr = ptr.clone();
    let client: Arc<dyn cas_client::Client + Send + Sync> = store.clone();
    let dl = data::FileDownloader::verif_new_with_client(cfg.clone(), client);
    let pf = data::PointerFile::init_from_string(&ptr, "");
    if !pf.is_valid() {
        fo.dl_checks.push((format!("{tag}: pointer"), Err(format!("pointer text does not parse back: {ptr:?}"))));
        return;
    }
    let mut jobs: Vec<Option<(u64, u64)>> = vec![None];
    if !ranges.is_empty() {
        jobs = ranges.iter().map(|r| Some(*r)).collect();
        jobs.push(None);
    }
    for (k, job) in jobs.iter().enumerate() {
        let path = dir.join(format!("dl-{tag}-{k}"));
        let _ = std::fs::remove_file(&path);
        let out = cas_client::OutputProvider::File(cas_client::FileProvider::new(path.clone()));
        let range = job.map(|(a, b)| cas_types::FileRange { start: a, end: b });
        let what = match job {
            None => format!("{tag}: whole file ({} bytes)", fo.data.len()),
            Some((a, b)) => format!("{tag}: range {a}..{b} of {}", fo.data.len()),
        };
        let res = dl.smudge_file_from_pointer(&pf, &out, range, None).await;
        let verdict = match res {
            Err(e) => Err(format!("C01.a download failed: {e}")),
            Ok(n) => {
                let got = std::fs::read(&path).unwrap_or_default();
                let want: &[u8] = match job {
                    None => &fo.data[..],
                    Some((a, b)) => &fo.data[*a as usize..*b as usize],
                };
                if got != want {
                    let first = got.iter().zip(want.iter()).position(|(x, y)| x != y).unwrap_or(got.len().min(want.len()));
                    Err(format!(
                        "{} bytes differ: got {} bytes, want {} bytes, first difference at {first}",
                        if job.is_some() { "C01.c" } else { "C01.a" },
                        got.len(),
                        want.len()
                    ))
                } else if n as usize != got.len() {
                    Err(format!("C01.b returned length {n} but {} bytes were written", got.len()))
                } else {
                    Ok(())
                }
            },
        };
        let _ = std::fs::remove_file(&path);
        fo.dl_checks.push((what, verdict));
    }
}

// ------------------------------------------------------------------------------------------------
// oracles

fn sha_hex(h: &H) -> String {
    h.iter().map(|b| format!("{b:02x}")).collect()
}

pub struct EvalCtx<'a> {
    pub plan: &'a Plan,
    pub faults: &'a [FaultSpec],
}

pub fn evaluate(ctx: &EvalCtx, w: &World, rep: &mut RunReport) {
    let st = w.st.lock().unwrap();
    let fault_free = ctx.faults.is_empty();
    let cls = if fault_free { "" } else { "+faults" };

    // violations observed inside the store (C15 on every put, C16.a / C15.e at every upload_shard)
    for (c, s, d) in &st.violations {
        rep.violate(c, s, d.clone());
    }

    // ---- store model from the xorb files actually on disk (independent parser)
    let mut store_model: HashMap<H, Vec<(H, usize)>> = HashMap::new();
    if let Ok(rd) = std::fs::read_dir(&w.store_xorb_dir) {
        let mut names: Vec<_> = rd.filter_map(|e| e.ok()).map(|e| e.file_name().to_string_lossy().to_string()).collect();
        names.sort();
        for name in names {
            let Some(hex) = name.strip_prefix("default.") else { continue };
            let Some(h) = ref_from_hex(hex) else {
                rep.violate("C02.a", "xorb-name", format!("store file {name} is not named by a hash"));
                continue;
            };
            let bytes = std::fs::read(w.store_xorb_dir.join(&name)).unwrap_or_default();
            match ref_xorb_parse(&bytes) {
                Err(e) => rep.violate("C02.a", "xorb-undecodable", format!("xorb {hex}: {e}")),
                Ok(x) => {
                    let mut chunks = Vec::new();
                    let mut ok = true;
                    for (scheme, payload, ulen) in &x.chunks {
                        if *scheme != 0 {
                            ok = false; // compressed payloads are C07's business
                            rep.count("probe:compressed_chunk_in_store", 1);
                            break;
                        }
                        if payload.len() != *ulen as usize {
                            rep.violate("C02.a", "chunk-length", format!("xorb {hex}: stored chunk payload {} != declared {}", payload.len(), ulen));
                        }
                        chunks.push((ref_chunk_hash(payload), payload.len()));
                    }
                    if ok {
                        if ref_merkle_root(&chunks) != h {
                            rep.violate("C02.a", "xorb-hash", format!("xorb {hex}: name differs from the hash recomputed from its {} chunks", chunks.len()));
                        }
                        if x.footer_hash != h || x.footer_chunk_hashes.len() != chunks.len() || x.footer_chunk_hashes.iter().zip(chunks.iter()).any(|(a, b)| *a != b.0) {
                            rep.violate("C02.a", "xorb-footer", format!("xorb {hex}: footer hash/chunk hashes disagree with the chunk data"));
                        }
                        store_model.insert(h, chunks);
                    }
                    // C02.b / C15.d: both receiver-side validators accept it for its name
                    let mh = m_of(&h);
                    let mut cur = std::io::Cursor::new(&bytes[..]);
                    match cas_object::CasObject::validate_cas_object(&mut cur, &mh) {
                        Ok(Some(_)) => {},
                        other => rep.violate("C02.b", "seekable-validator", format!("xorb {hex} rejected: {:?}", other.map(|o| o.is_some()).map_err(|e| e.to_string()))),
                    }
                    let mut acur = futures::io::Cursor::new(&bytes[..]);
                    match futures::executor::block_on(cas_object::validate_cas_object_from_async_read(&mut acur, &mh)) {
                        Ok(Some(_)) => {},
                        other => rep.violate("C02.b", "streaming-validator", format!("xorb {hex} rejected: {:?}", other.map(|o| o.is_some()).map_err(|e| e.to_string()))),
                    }
                    rep.count("xorbs_validated", 1);
                },
            }
        }
    }

    let mut stored_by_cache: HashMap<u8, HashSet<H>> = HashMap::new();
    let mut cache_chunk_entries: HashMap<u8, usize> = HashMap::new();
    let mut any_overlap = false;
    let mut dedup_on_download_path = false;
    let mut sig_words: Vec<u64> = vec![ctx.plan.latency_mode as u64, ctx.faults.len() as u64];

    for (si, so) in w.sessions.iter().enumerate() {
        let ss = &ctx.plan.sessions[si];
        let salt = salt_of(ss.salt_id);
        if so.hung {
            rep.violate("C16.d", "session-hung", format!("session {si}: a caller never returned (watchdog fired){cls}"));
            if fault_free {
                rep.violate("C01.a", "session-hung", format!("session {si} never completed"));
            }
            continue;
        }
        if let Some(e) = &so.new_err {
            rep.violate("C01.a", "session-new", format!("session {si} could not be created: {e}"));
            continue;
        }
        let puts = &st.puts[so.put_range.0..so.put_range.1];
        let shards = &st.shards[so.shard_range.0..so.shard_range.1];
        let store_errs = puts.iter().filter(|p| matches!(p.result, Some(Err(_)))).count() + shards.iter().filter(|s| s.ok == Some(false)).count();
        let call_errs = so.files.iter().filter(|f| f.feed_err.is_some() || matches!(f.finish, Some(Err(_)))).count()
            + matches!(so.finalize, Some(Err(_))) as usize;
        let fin_ok = matches!(so.finalize, Some(Ok(_)));
        sig_words.push(so.files.len() as u64);
        sig_words.push(puts.len() as u64);
        sig_words.push(shards.len() as u64);

        // C16.b: a failed upload is never swallowed
        if store_errs > 0 && call_errs == 0 {
            rep.violate(
                "C16.b",
                "error-swallowed",
                format!("session {si}: {store_errs} store call(s) returned an error but add_data/finish/finalize all returned Ok"),
            );
        }
        if fault_free && call_errs > 0 {
            let e = so
                .files
                .iter()
                .filter_map(|f| f.feed_err.clone().or_else(|| f.finish.as_ref().and_then(|r| r.as_ref().err().cloned())))
                .next()
                .or_else(|| so.finalize.as_ref().and_then(|r| r.as_ref().err().cloned()))
                .unwrap_or_default();
            rep.violate("C01.a", "session-error-without-fault", format!("session {si}: a call failed although no fault was injected: {e}"));
        }

        // overlap of feeders in event-sequence terms
        for (i, a) in so.files.iter().enumerate() {
            for b in so.files.iter().skip(i + 1) {
                if a.feed_start_seq < b.feed_end_seq && b.feed_start_seq < a.feed_end_seq && a.n_feed_calls > 1 && b.n_feed_calls > 1 {
                    any_overlap = true;
                }
            }
        }

        // ---- per file: C03, C14 (these hold whenever finish returned Ok)
        let mut expected: Vec<Option<(H, Vec<(H, usize)>)>> = Vec::new();
        for (fi, fo) in so.files.iter().enumerate() {
            let Some(Ok((hash_hex, size, m, _))) = &fo.finish else {
                expected.push(None);
                continue;
            };
            let chunks = ref_chunk_list(&fo.data, TARGET);
            let want = ref_file_hash(&chunks, &salt);
            if *hash_hex != ref_hex(&want) {
                rep.violate("C03.a", "file-hash", format!("session {si} file {fi} ({} bytes, {} chunks): pointer hash {hash_hex} != reference {}", fo.data.len(), chunks.len(), ref_hex(&want)));
            }
            if *size != fo.data.len() as u64 {
                rep.violate("C03.b", "pointer-size", format!("session {si} file {fi}: pointer size {size} but {} bytes were fed", fo.data.len()));
                rep.violate("C14.a", "pointer-size", format!("session {si} file {fi}: pointer size {size} but {} bytes were fed", fo.data.len()));
            }
            if m.total_bytes != fo.data.len() {
                rep.violate("C14.a", "total-bytes", format!("session {si} file {fi}: total_bytes {} but {} bytes were fed (deduped {} new {} defrag-prevented {})", m.total_bytes, fo.data.len(), m.deduped_bytes, m.new_bytes, m.defrag_prevented_dedup_bytes));
            }
            if m.new_bytes + m.deduped_bytes != m.total_bytes {
                rep.violate("C14.b", "bytes-sum", format!("session {si} file {fi}: new {} + deduped {} != total {}", m.new_bytes, m.deduped_bytes, m.total_bytes));
            }
            if m.new_chunks + m.deduped_chunks != m.total_chunks {
                rep.violate("C14.b", "chunks-sum", format!("session {si} file {fi}: new {} + deduped {} != total {} chunks", m.new_chunks, m.deduped_chunks, m.total_chunks));
            }
            if m.defrag_prevented_dedup_bytes > m.new_bytes || m.defrag_prevented_dedup_chunks > m.new_chunks {
                rep.violate("C14.c", "defrag-subset", format!("session {si} file {fi}: defrag-prevented {} bytes / {} chunks exceed new {} / {}", m.defrag_prevented_dedup_bytes, m.defrag_prevented_dedup_chunks, m.new_bytes, m.new_chunks));
            }
            rep.count("probe:defrag_prevented_chunks", m.defrag_prevented_dedup_chunks as u64);
            rep.count("probe:deduped_chunks", m.deduped_chunks as u64);
            rep.count("probe:global_dedup_chunks", m.deduped_chunks_by_global_dedup as u64);
            rep.count("files_cleaned", 1);
            rep.count("bytes_cleaned", fo.data.len() as u64);
            if m.deduped_chunks > 0 && fin_ok {
                dedup_on_download_path = true;
            }
            expected.push(Some((want, chunks)));
        }
        // twins inside and across sessions agree (C03.c) and salts separate (C03.d)
        for (sj, so2) in w.sessions.iter().enumerate().take(si + 1) {
            for (fj, f2) in so2.files.iter().enumerate() {
                for (fi, f1) in so.files.iter().enumerate() {
                    if (sj, fj) >= (si, fi) {
                        continue;
                    }
                    let (Some(Ok(a)), Some(Ok(b))) = (&f1.finish, &f2.finish) else { continue };
                    if f1.data.len() != f2.data.len() || f1.data != f2.data {
                        continue;
                    }
                    let same_salt = ctx.plan.sessions[sj].salt_id == ss.salt_id;
                    if same_salt && (a.0 != b.0 || a.1 != b.1) {
                        rep.violate("C03.c", "twins", format!("identical content: s{si}f{fi} -> ({}, {}), s{sj}f{fj} -> ({}, {})", a.0, a.1, b.0, b.1));
                    }
                    if !same_salt && !f1.data.is_empty() && a.0 == b.0 {
                        rep.violate("C03.d", "salt", format!("identical content under different salts has the same hash {}", a.0));
                    }
                    rep.count("probe:twin_pairs", 1);
                }
            }
        }

        if ss.dry_run {
            // a dry run computes pointers and metrics (checked above) and stores nothing: nothing of it reached the
            // store (the client accepted and dropped the uploads), so it takes no part in the store-side oracles and
            // obliges no later session; what it may have left behind shows in the later sessions' own checks
            if call_errs > 0 && fault_free {
                rep.violate("C01.a", "dry-run-error", format!("session {si} (dry run): a call failed although no fault was injected"));
            }
            rep.count("probe:dry_run_sessions", 1);
            if ss.clear_cache_before {
                stored_by_cache.entry(ss.cache_id).or_default().clear();
                rep.count("fault:shard_cache_cleared_between_sessions", 1);
            }
            continue;
        }

        // ---- downloads (C01; C16.c when faults were injected)
        let all_calls_ok = call_errs == 0 && fin_ok;
        for fo in &so.files {
            for (what, verdict) in &fo.dl_checks {
                rep.count("downloads_compared", 1);
                if let Err(e) = verdict {
                    if all_calls_ok {
                        if fault_free {
                            let clause = if e.starts_with("C01.c") { "C01.c" } else if e.starts_with("C01.b") { "C01.b" } else { "C01.a" };
                            rep.violate(clause, "download", format!("{what}: {e}"));
                        }
                        rep.violate("C16.c", "success-but-not-reconstructible", format!("every call of session {si} returned Ok, yet {what}: {e}{cls}"));
                    }
                }
            }
        }

        if !fin_ok {
            continue;
        }
        let Some(Ok(sm)) = &so.finalize else { continue };

        // ---- C14.d / C14.e session metrics
        if so.files.iter().all(|f| matches!(f.finish, Some(Ok(_)))) {
            let mut sum = Metrics::default();
            for f in &so.files {
                if let Some(Ok((_, _, m, _))) = &f.finish {
                    sum.total_bytes += m.total_bytes;
                    sum.new_bytes += m.new_bytes;
                    sum.deduped_bytes += m.deduped_bytes;
                    sum.defrag_prevented_dedup_bytes += m.defrag_prevented_dedup_bytes;
                    sum.total_chunks += m.total_chunks;
                    sum.new_chunks += m.new_chunks;
                    sum.deduped_chunks += m.deduped_chunks;
                    sum.deduped_bytes_by_global_dedup += m.deduped_bytes_by_global_dedup;
                }
            }
            if (sm.total_bytes, sm.new_bytes, sm.deduped_bytes, sm.defrag_prevented_dedup_bytes, sm.total_chunks, sm.new_chunks, sm.deduped_chunks, sm.deduped_bytes_by_global_dedup)
                != (sum.total_bytes, sum.new_bytes, sum.deduped_bytes, sum.defrag_prevented_dedup_bytes, sum.total_chunks, sum.new_chunks, sum.deduped_chunks, sum.deduped_bytes_by_global_dedup)
            {
                rep.violate("C14.d", "session-sum", format!("session {si}: session metrics {sm:?} are not the sum over files {sum:?}"));
            }
        }
        let handed_xorb: usize = puts.iter().filter_map(|p| p.result.as_ref().and_then(|r| r.as_ref().ok().copied())).sum();
        let handed_shard: usize = shards.iter().map(|s| s.bytes.len()).sum();
        if sm.xorb_bytes_uploaded != handed_xorb {
            rep.violate("C14.e", "xorb-bytes-uploaded", format!("session {si}: reported xorb_bytes_uploaded {} but the store's successful puts returned {} in total ({} puts){cls}", sm.xorb_bytes_uploaded, handed_xorb, puts.len()));
        }
        if sm.shard_bytes_uploaded != handed_shard {
            rep.violate("C14.e", "shard-bytes-uploaded", format!("session {si}: reported shard_bytes_uploaded {} but {} shard bytes were handed to the store", sm.shard_bytes_uploaded, handed_shard));
        }
        if sm.total_bytes_uploaded != sm.xorb_bytes_uploaded + sm.shard_bytes_uploaded {
            rep.violate("C14.e", "total-uploaded", format!("session {si}: total {} != xorb {} + shard {}", sm.total_bytes_uploaded, sm.xorb_bytes_uploaded, sm.shard_bytes_uploaded));
        }

        // ---- shards captured at upload_shard (independent parser): C02.c–g, C11.a
        let mut file_recs: HashMap<H, RefFile> = HashMap::new();
        let mut xorb_recs: HashMap<H, Vec<(H, u32, u32)>> = HashMap::new();
        for s in shards.iter().filter(|s| s.ok == Some(true)) {
            if let Ok(sh) = ref_shard_parse(&s.bytes) {
                for f in sh.files {
                    file_recs.insert(f.hash, f);
                }
                for x in sh.xorbs {
                    xorb_recs.insert(x.hash, x.chunks);
                }
            }
        }
        rep.count("shards_parsed", shards.len() as u64);
        if let Some(n) = so.file_infos {
            let distinct: HashSet<H> = expected.iter().flatten().filter(|e| !e.1.is_empty()).map(|e| e.0).collect();
            if n < distinct.len() {
                rep.violate("C02.c", "file-info-list", format!("session {si}: finalize_with_file_info returned {n} records for {} distinct non-empty files", distinct.len()));
            }
        }
        for (fi, e) in expected.iter().enumerate() {
            let Some((fh, chunks)) = e else { continue };
            if chunks.is_empty() {
                // an empty file needs no record; if the session recorded one, its SHA-256 must still be right
                if let Some(rec) = file_recs.get(fh) {
                    if let Some(s) = rec.sha256 {
                        if ref_hex(&s) != sha_hex(&ref_sha256(&[])) {
                            rep.violate("C02.f", "sha256-empty-file", format!("session {si} file {fi} (empty): recorded SHA-256 {} != {}", ref_hex(&s), sha_hex(&ref_sha256(&[]))));
                        }
                    }
                }
                continue;
            }
            let fo = &so.files[fi];
            let Some(rec) = file_recs.get(fh) else {
                rep.violate("C02.c", "file-record-missing", format!("session {si} file {fi}: no record for {} in the session's uploaded shards{cls}", ref_hex(fh)));
                continue;
            };
            let mut resolved: Vec<(H, usize)> = Vec::new();
            let mut bad = false;
            for (k, seg) in rec.segments.iter().enumerate() {
                let Some(x) = store_model.get(&seg.xorb) else {
                    rep.violate("C02.c", "segment-xorb-missing", format!("session {si} file {fi} segment {k}: xorb {} is not in the store{cls}", ref_hex(&seg.xorb)));
                    bad = true;
                    break;
                };
                if seg.start >= seg.end || seg.end as usize > x.len() {
                    rep.violate("C02.c", "segment-range", format!("session {si} file {fi} segment {k}: chunk range {}..{} outside xorb with {} chunks", seg.start, seg.end, x.len()));
                    bad = true;
                    break;
                }
                let slice = &x[seg.start as usize..seg.end as usize];
                let sum: usize = slice.iter().map(|c| c.1).sum();
                if sum != seg.bytes as usize {
                    rep.violate("C02.c", "segment-bytes", format!("session {si} file {fi} segment {k}: recorded {} bytes, chunks sum to {sum}", seg.bytes));
                }
                if rec.flags & FLAG_VERIFICATION != 0 {
                    let hs: Vec<H> = slice.iter().map(|c| c.0).collect();
                    if rec.verification.get(k) != Some(&ref_range_hash(&hs)) {
                        rep.violate("C02.e", "verification-hash", format!("session {si} file {fi} segment {k}: verification hash differs from the keyed hash of its {} chunk hashes", hs.len()));
                    }
                }
                resolved.extend_from_slice(slice);
            }
            if bad {
                continue;
            }
            if rec.flags & FLAG_VERIFICATION == 0 {
                rep.violate("C02.e", "verification-absent", format!("session {si} file {fi}: record carries no verification entries"));
            }
            if ref_file_hash(&resolved, &salt) != *fh {
                rep.violate("C02.d", "file-hash-of-segments", format!("session {si} file {fi}: hash recomputed from the referenced chunks differs from the record's hash"));
            }
            if resolved != *chunks {
                rep.violate("C02.g", "chunk-list", format!("session {si} file {fi}: referenced chunk list ({} chunks) differs from the reference chunking ({} chunks)", resolved.len(), chunks.len()));
            }
            match rec.sha256 {
                None => rep.violate("C02.f", "sha-absent", format!("session {si} file {fi}: no SHA-256 recorded")),
                Some(s) => {
                    if ref_hex(&s) != sha_hex(&ref_sha256(&fo.data)) {
                        rep.violate("C02.f", "sha256", format!("session {si} file {fi}: recorded SHA-256 {} != {}", ref_hex(&s), sha_hex(&ref_sha256(&fo.data))));
                    }
                },
            }
            rep.count("file_records_validated", 1);
        }

        // C11.a: every xorb successfully put by this finalized session is in the CAS section of its shards
        for p in puts.iter() {
            if !matches!(p.result, Some(Ok(_))) {
                continue;
            }
            match xorb_recs.get(&p.hash) {
                None => rep.violate(
                    "C11.a",
                    "xorb-not-in-session-shards",
                    format!("session {si}: xorb {} ({} chunks, put #{}) was stored but none of the session's shards lists its chunks{cls}", ref_hex(&p.hash), p.chunks.len(), p.op),
                ),
                Some(chs) => {
                    let mut prev = 0u32;
                    let want: Vec<(H, u32)> = p.chunks.iter().map(|(h, b)| { let l = *b - prev; prev = *b; (*h, l) }).collect();
                    let got: Vec<(H, u32)> = chs.iter().map(|c| (c.0, c.1)).collect();
                    if want != got {
                        rep.violate("C11.a", "xorb-chunk-list", format!("session {si}: shard lists xorb {} with a different chunk list", ref_hex(&p.hash)));
                    }
                },
            }
        }
        // C11.b / C11.c against earlier finalized sessions sharing this shard cache
        let index_cap = env_usize("HF_XET_CHUNK_INDEX_TABLE_MAX_SIZE", 64 << 20);
        let indexed_upper_bound = *cache_chunk_entries.get(&ss.cache_id).unwrap_or(&0);
        if ss.clear_cache_before {
            // what earlier sessions recorded in this cache is gone: they no longer oblige this or later sessions
            stored_by_cache.entry(ss.cache_id).or_default().clear();
            rep.count("fault:shard_cache_cleared_between_sessions", 1);
        }
        let earlier = stored_by_cache.entry(ss.cache_id).or_default();
        // shards fetched through global dedup are registered in the cache as well and are not counted above
        let indexed_upper_bound = if index_cap < (64 << 20) && st.query_hits > 0 { usize::MAX } else { indexed_upper_bound };
        if indexed_upper_bound >= index_cap {
            rep.count("probe:sessions_excluded_from_C11b_by_index_cap", 1);
        }
        let defrag_free = indexed_upper_bound < index_cap && so.files.iter().all(|f| matches!(&f.finish, Some(Ok((_, _, m, _))) if m.defrag_prevented_dedup_chunks == 0));
        if !earlier.is_empty() && defrag_free && call_errs == 0 {
            let mut refed = 0u64;
            for p in puts.iter() {
                if let Some((h, _)) = p.chunks.iter().find(|(h, _)| earlier.contains(h)) {
                    rep.violate(
                        "C11.b",
                        "chunk-uploaded-again",
                        format!("session {si} put #{} uploads chunk {} again although an earlier finalized session sharing the shard cache stored it{cls}", p.op, ref_hex(h)),
                    );
                }
            }
            for (fi, e) in expected.iter().enumerate() {
                let Some((_, chunks)) = e else { continue };
                if chunks.is_empty() {
                    continue;
                }
                let n_known = chunks.iter().filter(|c| earlier.contains(&c.0)).count();
                refed += n_known as u64;
                if n_known == chunks.len() {
                    if let Some(Ok((_, _, m, _))) = &so.files[fi].finish {
                        rep.count("probe:full_repeat_files", 1);
                        if m.new_bytes != 0 {
                            rep.violate("C11.c", "repeat-new-bytes", format!("session {si} file {fi}: every chunk was stored by an earlier finalized session, yet new_bytes = {} of {}{cls}", m.new_bytes, m.total_bytes));
                        }
                    }
                }
            }
            rep.count("probe:chunks_refed_from_earlier_session", refed);
        }
        if !defrag_free {
            rep.count("probe:sessions_excluded_from_C11b_by_defrag", 1);
        }
        for p in puts.iter() {
            if matches!(p.result, Some(Ok(_))) {
                for (h, _) in &p.chunks {
                    earlier.insert(*h);
                }
            }
        }
        // chunk entries that this session's shards add to the cache's index (upper bound of what gets indexed)
        *cache_chunk_entries.entry(ss.cache_id).or_insert(0) += xorb_recs.values().map(|c| c.len()).sum::<usize>();
    }

    // ---- bookkeeping for evidence
    rep.count("probe:sessions_run_as_another_process_sharing_the_shard_cache", ctx.plan.sessions.iter().take(w.sessions.len()).filter(|s| s.foreign).count() as u64);
    rep.count("store_puts", st.puts.len() as u64);
    rep.count("store_shard_uploads", st.shards.len() as u64);
    rep.count("store_global_dedup_queries", st.queries);
    rep.count("probe:global_dedup_query_hits", st.query_hits);
    rep.count("probe:max_store_calls_in_flight>=2", (st.max_in_flight >= 2) as u64);
    for (k, v) in &st.faults_fired {
        rep.count(&format!("fault:{k}"), *v);
    }
    rep.count("fault:fired_while_another_call_in_flight", st.fault_overlapped);
    rep.count("fault:session_lock_acquisition_delayed", st.lock_delays);
    rep.count("fault:store_call_delayed(latency_mode>0)", (ctx.plan.latency_mode > 0) as u64 * (st.puts.len() + st.shards.len()) as u64);
    let reordered = st.return_order.windows(2).any(|w| w[0] > w[1] && w[0] < 1_000_000 && w[1] < 1_000_000);
    rep.count("probe:puts_completed_out_of_order", reordered as u64);
    sig_words.extend(st.return_order.iter().copied());
    rep.signature = mix(&sig_words);
    rep.sim_ms += w.sim_ms;
    let any_fault_overlap = st.fault_overlapped > 0;
    rep.nontrivial = if fault_free { any_overlap && dedup_on_download_path } else { any_fault_overlap };
    drop(st);
}

// ------------------------------------------------------------------------------------------------
// engine

fn run_once(plan: &Plan, faults: &[FaultSpec], rep: &mut RunReport) -> (usize, usize, usize) {
    let trace = std::env::var("XSIM_TRACE").is_ok();
    let t0 = std::time::Instant::now();
    let (world, _guard) = run_world(plan, faults, trace);
    let t1 = std::time::Instant::now();
    evaluate(&EvalCtx { plan, faults }, &world, rep);
    if std::env::var("XSIM_PROF").is_ok() {
        eprintln!("[prof] world {:?} evaluate {:?}", t1 - t0, t1.elapsed());
    }
    let st = world.st.lock().unwrap();
    if trace {
        for l in &st.trace {
            eprintln!("[trace] {l}");
        }
    }
    let (mb, mc) = st.limits;
    let at_limit = st.puts.iter().filter(|p| p.chunks.len() == mc || p.data_len + 128 * 1024 > mb).count();
    rep.count("probe:xorb_cut_at_a_limit", at_limit as u64);
    // calls of `exists` on the upload path (none in the shipped session)
    let n_exists = *st.counters.get("exists").unwrap_or(&0) as usize;
    rep.counters.insert("store_exists_calls_last_execution".into(), n_exists as u64);
    (st.puts.len(), st.shards.len(), *st.counters.get("query").unwrap_or(&0) as usize)
}

impl Engine for SessionEngine {
    fn name(&self) -> &'static str {
        "session"
    }
    fn properties(&self) -> &'static [&'static str] {
        &["C01", "C02", "C03", "C11", "C14", "C15", "C16"]
    }
    fn level(&self, focus: &str) -> &'static str {
        if focus == "C16" {
            "fault_enumeration"
        } else {
            "exploration"
        }
    }

    fn chunk_env(&self, seed: u64, chunk: u64, focus: &str, _tier: Tier) -> Vec<(String, String)> {
        let mut rng = Rng::stream(seed, chunk, "session-config");
        let mut env = Vec::new();
        let mut set = |k: &str, v: String| env.push((format!("HF_XET_{k}"), v));
        // every fourth worker runs the shipped defaults
        if chunk % 4 == 0 && focus != "C15" && focus != "C14" {
            return env;
        }
        let xorb_bytes = *rng.pick(&[128usize << 10, 129 << 10, 200 << 10, 256 << 10, 512 << 10, 1 << 20, 4 << 20, 64 << 20]);
        let xorb_chunks = *rng.pick(&[1usize, 2, 3, 4, 5, 8, 16, 31, 64, 1024, 8192]);
        set("MAX_XORB_BYTES", xorb_bytes.to_string());
        set("MAX_XORB_CHUNKS", xorb_chunks.to_string());
        set("MDB_SHARD_MIN_TARGET_SIZE", rng.pick(&[300u64, 1000, 4000, 20_000, 200_000, 64 << 20]).to_string());
        set("INGESTION_BLOCK_SIZE", rng.pick(&[1usize, 4096, 65_536, 100_000, 1 << 20, 8 << 20]).to_string());
        set("MAX_CONCURRENT_UPLOADS", rng.pick(&[1usize, 2, 8]).to_string());
        // the in-memory chunk index of the shard cache has a cap (a designed exception to C11); small caps make its
        // bookkeeping matter, the oracle exempts sessions once the true number of indexed chunks may reach the cap
        if focus == "C11" || rng.chance(1, 3) {
            set("CHUNK_INDEX_TABLE_MAX_SIZE", rng.pick(&[4usize, 16, 64, 150, 400, 2000, 64 << 20]).to_string());
        }
        let frag = match focus {
            "C14" => true,
            "C11" => false,
            _ => rng.chance(1, 3),
        };
        if frag {
            set("NRANGES_IN_STREAMING_FRAGMENTATION_ESTIMATOR", rng.pick(&[1usize, 2, 4, 8, 16]).to_string());
            set("MIN_N_CHUNKS_PER_RANGE", rng.pick(&["1.5", "2.0", "4.0", "8.0"]).to_string());
            set("MIN_N_CHUNKS_PER_RANGE_HYSTERESIS_FACTOR", rng.pick(&["0.25", "0.5", "0.9"]).to_string());
        }
        env
    }

    fn budget(&self, focus: &str, tier: Tier) -> Budget {
        match (tier, focus) {
            (Tier::Quick, "C16") => Budget { runs: 320, chunk: 10, max_wall_s: 150 },
            (Tier::Thorough, "C16") => Budget { runs: 4_000, chunk: 20, max_wall_s: 900 },
            (Tier::Quick, _) => Budget { runs: 6_000, chunk: 100, max_wall_s: 120 },
            (Tier::Thorough, _) => Budget { runs: 120_000, chunk: 200, max_wall_s: 900 },
        }
    }

    fn gen_plan(&self, seed: u64, run: u64, focus: &str, tier: Tier) -> Value {
        serde_json::to_value(gen(seed, run, focus, tier)).unwrap()
    }

    fn execute(&self, plan: &Value, focus: &str) -> RunReport {
        let p: Plan = serde_json::from_value(plan.clone()).expect("session plan");
        let mut rep = RunReport::default();
        if let Some(m) = &p.mgr {
            crate::engines::mgrmt::run_mgr(m, &mut rep, focus);
            return rep;
        }
        let n_files: usize = p.sessions.iter().map(|s| s.files.len()).sum();
        let (n_put, n_shard, n_query) = run_once(&p, &p.faults, &mut rep);
        if p.enumerate_faults && p.faults.is_empty() && rep.violations.iter().all(|v| v.property != focus) {
            // each single store call failing in turn, both ways; then a few random multi-fault sets
            let mut sets: Vec<Vec<FaultSpec>> = Vec::new();
            for i in 0..n_put as u64 {
                for mode in [FaultMode::FailBefore, FaultMode::FailAfter] {
                    sets.push(vec![FaultSpec { kind: "put".into(), index: i, mode }]);
                }
            }
            for i in 0..n_shard as u64 {
                for mode in [FaultMode::FailBefore, FaultMode::FailAfter] {
                    sets.push(vec![FaultSpec { kind: "upload_shard".into(), index: i, mode }]);
                }
            }
            for i in 0..n_query.min(4) as u64 {
                sets.push(vec![FaultSpec { kind: "query".into(), index: i, mode: FaultMode::FailBefore }]);
            }
            // any other store call the session makes on its upload path (the shipped code makes none)
            let n_exists = rep.counters.get("store_exists_calls_last_execution").copied().unwrap_or(0);
            for i in 0..n_exists.min(8) {
                sets.push(vec![FaultSpec { kind: "exists".into(), index: i, mode: FaultMode::FailBefore }]);
            }
            let mut rng = Rng::new(p.schedule_seed ^ 0xFA17);
            for _ in 0..3 {
                let k = rng.range(2, 4);
                let mut s = Vec::new();
                for _ in 0..k {
                    let (kind, n) = if rng.chance(2, 3) { ("put", n_put) } else { ("upload_shard", n_shard) };
                    if n > 0 {
                        s.push(FaultSpec { kind: kind.into(), index: rng.below(n as u64), mode: if rng.chance(1, 2) { FaultMode::FailBefore } else { FaultMode::FailAfter } });
                    }
                }
                if !s.is_empty() {
                    sets.push(s);
                }
            }
            rep.count("fault_sets_enumerated", sets.len() as u64);
            for fs in sets {
                let mut q = p.clone();
                // re-draw latencies for every fault set
                q.schedule_seed = mix(&[p.schedule_seed, fs[0].index, label_hash(&fs[0].kind), fs.len() as u64, fs[0].mode as u64]);
                let mut sub = RunReport::default();
                run_once(&q, &fs, &mut sub);
                rep.sim_ms += sub.sim_ms;
                for (k, v) in sub.counters {
                    if k.starts_with("fault:") || k.starts_with("probe:") {
                        *rep.counters.entry(k).or_insert(0) += v;
                    }
                }
                rep.nontrivial |= sub.nontrivial;
                rep.signature = mix(&[rep.signature, sub.signature]);
                if !sub.violations.is_empty() {
                    // hand the worker a direct plan for this fault set (used for minimisation and replay)
                    q.enumerate_faults = false;
                    q.faults = fs.clone();
                    for v in sub.violations {
                        rep.violations.push(Violation { detail: format!("{} [fault set {:?}]", v.detail, fs), ..v });
                    }
                    rep.narrowed_plan = Some(serde_json::to_value(&q).unwrap());
                    break;
                }
            }
        }
        // per-property non-triviality
        let c = |k: &str| rep.counters.get(k).copied().unwrap_or(0);
        rep.nontrivial = match focus {
            "C11" => c("probe:chunks_refed_from_earlier_session") > 0,
            "C14" => c("probe:defrag_prevented_chunks") > 0 || c("probe:xorb_cut_at_a_limit") > 0,
            "C15" => c("probe:xorb_cut_at_a_limit") > 0,
            "C16" => rep.nontrivial,
            _ => rep.nontrivial,
        };
        rep.sample = Some(json!({
            "sessions": p.sessions.iter().map(|s| json!({"files": s.files.len(), "cache": s.cache_id, "salt": s.salt_id, "global_dedup": s.global_dedup, "other_process": s.foreign, "cache_cleared_before": s.clear_cache_before, "dry_run": s.dry_run})).collect::<Vec<_>>(),
            "files": n_files, "latency_mode": p.latency_mode, "store_calls": {"put": n_put, "upload_shard": n_shard, "query": n_query},
            "enumerate_faults": p.enumerate_faults, "explicit_faults": p.faults.len(),
        }));
        rep
    }

    fn shrink(&self, plan: &Value) -> Vec<Value> {
        let p: Plan = serde_json::from_value(plan.clone()).expect("session plan");
        let mut out: Vec<Plan> = Vec::new();
        // drop sessions (keep fault indices: they count calls over the whole run, so only drop from the end first)
        if p.sessions.len() > 1 {
            let mut q = p.clone();
            q.sessions.pop();
            out.push(q);
            for i in 0..p.sessions.len() - 1 {
                let mut q = p.clone();
                q.sessions.remove(i);
                out.push(q);
            }
        }
        for (si, s) in p.sessions.iter().enumerate() {
            if s.files.len() > 1 {
                for fi in 0..s.files.len() {
                    let mut q = p.clone();
                    q.sessions[si].files.remove(fi);
                    out.push(q);
                }
            }
        }
        if p.latency_mode != 0 {
            let mut q = p.clone();
            q.latency_mode = 0;
            out.push(q);
        }
        if p.ranges_per_file > 0 {
            let mut q = p.clone();
            q.ranges_per_file = 0;
            out.push(q);
        }
        for (si, s) in p.sessions.iter().enumerate() {
            for (fi, f) in s.files.iter().enumerate() {
                if f.feed_style != 0 {
                    let mut q = p.clone();
                    q.sessions[si].files[fi].feed_style = 0;
                    out.push(q);
                }
                if f.start_delay_ms != 0 {
                    let mut q = p.clone();
                    q.sessions[si].files[fi].start_delay_ms = 0;
                    out.push(q);
                }
                for (pi, part) in f.parts.iter().enumerate() {
                    if f.parts.len() > 1 {
                        let mut q = p.clone();
                        q.sessions[si].files[fi].parts.remove(pi);
                        out.push(q);
                    }
                    match part {
                        Part::Atoms(a) if a.len() > 1 => {
                            let mut q = p.clone();
                            q.sessions[si].files[fi].parts[pi] = Part::Atoms(a[..a.len() / 2].to_vec());
                            out.push(q);
                            let mut q = p.clone();
                            q.sessions[si].files[fi].parts[pi] = Part::Atoms(a[a.len() / 2..].to_vec());
                            out.push(q);
                            let mut q = p.clone();
                            q.sessions[si].files[fi].parts[pi] = Part::Atoms(a[..a.len() - 1].to_vec());
                            out.push(q);
                        },
                        Part::Gen(c) if c.len > 1 => {
                            let mut q = p.clone();
                            q.sessions[si].files[fi].parts[pi] = Part::Gen(ContentSpec { len: c.len / 2, ..c.clone() });
                            out.push(q);
                        },
                        _ => {},
                    }
                }
            }
            if s.global_dedup {
                let mut q = p.clone();
                q.sessions[si].global_dedup = false;
                out.push(q);
            }
        }
        if p.faults.len() > 1 {
            for i in 0..p.faults.len() {
                let mut q = p.clone();
                q.faults.remove(i);
                out.push(q);
            }
        }
        out.into_iter().map(|q| serde_json::to_value(q).unwrap()).collect()
    }

    fn rule(&self, focus: &str) -> String {
        let nt = match focus {
            "C11" => "a later session re-fed at least one chunk that an earlier finalized session sharing the shard cache had stored",
            "C14" => "a fragmentation-prevention rejection happened or a xorb was cut at a configured limit",
            "C15" => "a xorb was cut at a configured limit (chunk count reached, or byte size within one maximum chunk of the limit)",
            "C16" => "an injected store failure fired while another store call was in flight",
            _ => "at least two files with more than one feed call overlapped in event-sequence time and at least one dedup hit lay on a downloaded file's path",
        };
        let mgr = if focus == "C11" || focus == "C01" { " One C11 run in five (C01: one in ten) instead drives one ShardFileManager from 2-4 concurrent callers (OS threads with their own runtimes under the cooperative one-thread-at-a-time scheduler, switching at the shard write-out points, between operations and whenever a caller finds a lock held): adds of xorb and file records, flushes (explicit and size-triggered) and queries; every record whose add returned Ok must be in a shard file of the directory after the final flush and be found by the manager (non-trivial there: a caller found a lock held and at least two shards were written)." } else { "" };
        format!("Each run: 1-4 upload sessions x 1-8 concurrently cleaned files against one simulated store (real LocalClient behind gates) with seeded contents from an atom pool (twins, extensions, recombinations, in-file repeats, fragmentation patterns, degenerate sizes), seeded feed partitions, seeded latency of every store call on the paused clock, per-process seeded size-limit configuration; one session in eight (C11: one in four) runs as another process sharing the shard-cache directory (own manager objects; its shard files appear in the shared directory afterwards) and before one session in twelve (C11: one in six) the shard cache directory is emptied (cache clear / expiry clean-up; data stored afterwards obliges later sessions again); one session in eight before the last is a dry run (the client accepts uploads without storing them; it must leave nothing behind that a later session relies on); all oracles of the session family are evaluated after the run.{mgr} Non-trivial: {nt}. Distinct: hash of (latency mode, per-session file/put/shard counts, order of store-call completions).")
    }
    fn real_vs_stub(&self) -> Value {
        json!({
            "real": ["data::FileUploadSession / SingleFileCleaner / FileDownloader / PointerFile", "deduplication::{Chunker, FileDeduper, DataAggregator, defrag prevention}", "data::shard_interface + mdb_shard::{ShardFileManager, shard format, consolidation}", "cas_client::LocalClient (xorb serialisation, shard registration, LMDB global-dedup table)", "cas_object validators", "tokio runtime, semaphores, join sets"],
            "simulated": ["latency, completion order and failure of store calls (SimStore gates on tokio's paused clock)", "another process sharing the shard-cache directory", "C11 manager mode: OS-thread interleaving of concurrent manager callers (cooperative scheduler)", "interleaving of add_data calls of concurrently cleaned files", "wall clock (H6)", "hand-over of a global-dedup shard into the client's cache directory"],
            "not_run": ["RemoteClient/HTTP", "hf_xet bindings"]
        })
    }
    fn assumptions(&self, focus: &str) -> Vec<String> {
        let mut v = vec![
            "TARGET_CHUNK_SIZE is release-fixed at 64 KiB; the session engines run the release configuration.".to_string(),
            "Reference chunker/hashes/shard and xorb parsers in sim/src/refmodel.rs are the oracle's trusted base.".to_string(),
        ];
        if focus == "C16" {
            v.push("Fault positions are enumerated completely per history (every put and upload_shard call, two failure modes each) plus 3 random multi-fault sets; the histories themselves are sampled.".into());
        }
        v
    }
}
