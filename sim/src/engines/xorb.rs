//! `stream/xorb` engine: C07 (serialisation round trip through simulated readers: seekable with short reads, tokio
//! AsyncRead with short reads and Pending, Stream<Bytes> cut at arbitrary offsets) and C08 (fault injection on the
//! serialised bytes: flips, truncation at every offset, spliced chunks, inflated fields, random strings).

use std::io::Cursor;
use std::pin::Pin;
use std::task::{Context, Poll};

use cas_object::{CasObject, CompressionScheme};
use merklehash::MerkleHash;
use serde::{Deserialize, Serialize};
use serde_json::{json, Value};

use crate::content::{gen_content, ContentSpec};
use crate::core::*;
use crate::prng::{mix, Rng};
use crate::refmodel::*;
use crate::shardmodel::{AsyncShortReader, ShortReader};

pub struct XorbEngine;

#[derive(Clone, Debug, Serialize, Deserialize, PartialEq)]
pub struct XorbSpec {
    pub seed: u64,
    pub n_chunks: u32,
    /// 0 tiny (1..64), 1 small (1..2000), 2 medium (..20000), 3 large incl. 128 KiB, 4 every residue mod 4 around 4096
    pub len_style: u32,
    /// content kind per chunk is drawn from this mix: 0 random only, 1 compressible only, 2 float-like only, 3 mixed
    pub content_mix: u32,
    /// 0 None, 1 LZ4, 2 BG4+LZ4, 3 automatic
    pub scheme: u32,
}

#[derive(Clone, Debug, Serialize, Deserialize, PartialEq)]
pub enum Mutation {
    None,
    Xor { off: u64, mask: u8 },
    Truncate { len: u64 },
    /// drop / duplicate / swap chunks of the chunk section; `refooter` rebuilds a consistent footer for the new list
    DropChunk { i: u32, refooter: bool },
    DupChunk { i: u32, refooter: bool },
    SwapChunks { i: u32, j: u32, refooter: bool },
    /// overwrite a u32 field of the footer (by index of the field list) with a value
    SetFooterU32 { field: u32, value: u32 },
    StripFooter,
    Append { n: u32 },
    Random { len: u32 },
    OtherHash,
    /// several edits of one footer at once: version bytes (which: 0 footer, 1 hash section, 2 boundary section) and
    /// u32 fields (same field list as SetFooterU32; `delta` adds to the stored value instead of replacing it)
    FooterEdit { versions: Vec<(u8, u8)>, u32s: Vec<(u32, u32, bool)> },
    /// a re-assembled footer whose three chunk counts differ from each other: the hash table holds n+hashes entries,
    /// the boundary section's two tables n+boundaries entries each, the trailing num_chunks field says n+num_chunks;
    /// every table is as long as its own count says, and the section offsets and the info length are recomputed, so
    /// that only the cross-checks between the counts can reject it
    FooterCraft { hashes: i32, boundaries: i32, num_chunks: i32 },
}

#[derive(Clone, Debug, Serialize, Deserialize, PartialEq)]
pub struct Plan {
    pub spec: XorbSpec,
    pub reader_seed: u64,
    pub reader_mode: u32,
    pub pending_p: u64,
    pub range_seed: u64,
    pub mutation: Mutation,
    /// C08: enumerate every single-byte flip of header/footer bytes and truncation at every offset (small objects)
    pub enumerate: bool,
}

pub struct Built {
    pub chunks: Vec<Vec<u8>>,
    pub data: Vec<u8>,
    pub hashes: Vec<(H, usize)>,
    pub hash: H,
    pub bytes: Vec<u8>,
    pub boundaries: Vec<(MerkleHash, u32)>,
}

fn scheme_of(s: u32) -> Option<CompressionScheme> {
    match s % 4 {
        0 => Some(CompressionScheme::None),
        1 => Some(CompressionScheme::LZ4),
        2 => Some(CompressionScheme::ByteGrouping4LZ4),
        _ => None,
    }
}

pub fn build(spec: &XorbSpec) -> Built {
    let mut rng = Rng::new(spec.seed);
    let mut chunks = Vec::new();
    for i in 0..spec.n_chunks.max(1) {
        let len = match spec.len_style % 6 {
            0 => rng.range(1, 64),
            1 => rng.range(1, 2000),
            2 => rng.log_range(1, 20_000),
            3 => match rng.below(6) {
                0 => 131072,
                1 => 131071,
                2 => 65536,
                _ => rng.log_range(1, 131072),
            },
            5 => 131072,
            _ => 4093 + (i as u64 % 8),
        } as usize;
        let kind = match spec.content_mix % 4 {
            0 => 0,
            1 => *rng.pick(&[1u32, 2, 4, 6]),
            2 => 7,
            _ => *rng.pick(&[0u32, 1, 2, 4, 6, 7, 7]),
        };
        chunks.push(gen_content(&ContentSpec { kind, seed: rng.next_u64(), len }));
    }
    let mut data = Vec::new();
    let mut hashes = Vec::new();
    let mut boundaries = Vec::new();
    for c in &chunks {
        data.extend_from_slice(c);
        let h = ref_chunk_hash(c);
        hashes.push((h, c.len()));
        boundaries.push((m_of(&h), data.len() as u32));
    }
    let hash = ref_merkle_root(&hashes);
    let mut cur = Cursor::new(Vec::new());
    CasObject::serialize(&mut cur, &m_of(&hash), &data, &boundaries, scheme_of(spec.scheme)).expect("serialize");
    Built {
        chunks,
        data,
        hashes,
        hash,
        bytes: cur.into_inner(),
        boundaries,
    }
}

/// tokio AsyncRead with short reads and spurious Pending
pub struct TokioShortReader<'a> {
    pub inner: ShortReader<'a>,
    pub pendings: u64,
    pub pending_p: u64,
}

impl tokio::io::AsyncRead for TokioShortReader<'_> {
    fn poll_read(mut self: Pin<&mut Self>, cx: &mut Context<'_>, buf: &mut tokio::io::ReadBuf<'_>) -> Poll<std::io::Result<()>> {
        self.inner.n += 1;
        let r = mix(&[self.inner.seed, self.inner.n, 0x51]);
        if r % 16 < self.pending_p {
            self.pendings += 1;
            cx.waker().wake_by_ref();
            return Poll::Pending;
        }
        let mut tmp = vec![0u8; buf.remaining().min(1 << 16)];
        let n = std::io::Read::read(&mut self.inner, &mut tmp)?;
        buf.put_slice(&tmp[..n]);
        Poll::Ready(Ok(()))
    }
}

fn fragments(bytes: &[u8], seed: u64, mode: u32) -> Vec<Result<bytes::Bytes, std::io::Error>> {
    let mut rng = Rng::new(seed);
    let mut out = Vec::new();
    let mut pos = 0;
    while pos < bytes.len() {
        let n = match mode % 3 {
            0 => bytes.len(),
            1 => rng.urange(0, 9),
            _ => match rng.below(4) {
                0 => 0,
                1 => 1,
                2 => rng.urange(1, 100),
                _ => rng.log_range(1, 1 << 16) as usize,
            },
        }
        .min(bytes.len() - pos);
        out.push(Ok(bytes::Bytes::copy_from_slice(&bytes[pos..pos + n])));
        pos += n;
        if out.len() > 200_000 {
            out.push(Ok(bytes::Bytes::copy_from_slice(&bytes[pos..])));
            break;
        }
    }
    out
}

fn block_on<F: std::future::Future>(f: F) -> F::Output {
    futures::executor::block_on(f)
}

// ------------------------------------------------------------------------------------------------
// C07

fn run_c07(p: &Plan, rep: &mut RunReport) {
    let b = build(&p.spec);
    let n = b.chunks.len() as u32;
    let parsed = match ref_xorb_parse(&b.bytes) {
        Ok(x) => x,
        Err(e) => {
            rep.violate("C07.c", "independent-parse", format!("serialised xorb rejected by the independent parser: {e}"));
            return;
        },
    };
    // what was stored
    for (scheme, payload, ulen) in &parsed.chunks {
        rep.count(&format!("probe:stored_scheme_{scheme}"), 1);
        if *scheme == 0 && payload.len() != *ulen as usize {
            rep.violate("C07.c", "uncompressed-chunk-length", "stored uncompressed chunk has a different payload length".into());
        }
    }
    if parsed.chunks.len() != n as usize {
        rep.violate("C07.c", "chunk-count", format!("{} chunks in the chunk section, {} given", parsed.chunks.len(), n));
    }
    // C07.c boundaries / unpacked offsets / footer hashes against the input
    let mut want_b = Vec::new();
    let mut acc = 0u32;
    for (_, payload, _) in &parsed.chunks {
        acc += 8 + payload.len() as u32;
        want_b.push(acc);
    }
    let mut want_u = Vec::new();
    let mut acc = 0u32;
    for c in &b.chunks {
        acc += c.len() as u32;
        want_u.push(acc);
    }
    if parsed.boundaries != want_b {
        rep.violate("C07.c", "chunk-boundary-offsets", "footer chunk_boundary_offsets differ from the cumulative chunk sizes".into());
    }
    if parsed.unpacked != want_u {
        rep.violate("C07.c", "unpacked-chunk-offsets", "footer unpacked_chunk_offsets differ from the cumulative input lengths".into());
    }
    if parsed.footer_hash != b.hash || parsed.footer_chunk_hashes.iter().zip(b.hashes.iter()).any(|(a, c)| *a != c.0) {
        rep.violate("C07.c", "footer-hashes", "footer hash / chunk hashes differ from the input".into());
    }

    // fault history (one run in three): a damaged copy of this object is read first on the same thread — the payload
    // of one stored-compressed chunk damaged near its end, in its middle, or cut short; whatever those reads return,
    // the reads of the intact object below must be unaffected (decoder state must not survive a failed decode)
    if mix(&[p.range_seed, 0xFA11]) % 3 == 0 {
        let mut pos = 0usize;
        let mut targets: Vec<(usize, usize)> = Vec::new();
        for (scheme, payload, _) in &parsed.chunks {
            if *scheme != 0 && payload.len() >= 8 {
                targets.push((pos + 8, payload.len()));
            }
            pos += 8 + payload.len();
        }
        if !targets.is_empty() {
            let (at, len) = targets[(mix(&[p.range_seed, 1]) % targets.len() as u64) as usize];
            let mut bad = b.bytes.clone();
            match mix(&[p.range_seed, 2]) % 3 {
                0 => {
                    for k in 1..=4 {
                        bad[at + len - k] ^= 0xFF;
                    }
                },
                1 => bad[at + len / 2] ^= 0x5A,
                _ => {
                    bad[at + len - 1] = bad[at + len - 1].wrapping_add(1);
                    bad[at + len - 4] = bad[at + len - 4].wrapping_add(1);
                },
            }
            let _ = take_last_panic();
            let r = std::panic::catch_unwind(|| {
                let mut c = Cursor::new(&bad);
                if let Ok(cas) = CasObject::deserialize(&mut c) {
                    let _ = cas.get_all_bytes(&mut c);
                }
                let _ = block_on(cas_object::validate_cas_object_from_async_read(&mut AsyncShortReader::new(&bad, 1, 0, 0), &m_of(&b.hash)));
            });
            if r.is_err() {
                rep.violate("C07.d", "panic-on-damaged-object", format!("reading a damaged copy panicked: {:?}", take_last_panic()));
            }
            rep.count("fault:damaged_copy_read_first_on_this_thread", 1);
        }
    }

    // seekable reader with short reads
    let mut r = ShortReader::new(&b.bytes, p.reader_seed, p.reader_mode);
    let cas = match CasObject::deserialize(&mut r) {
        Ok(c) => c,
        Err(e) => {
            rep.violate("C07.a", "deserialize", format!("{e}"));
            return;
        },
    };
    match cas.get_all_bytes(&mut r) {
        Ok(d) if d == b.data => {},
        Ok(d) => rep.violate("C07.a", "get-all-bytes", format!("returned {} bytes, input {} (scheme {})", d.len(), b.data.len(), p.spec.scheme)),
        Err(e) => rep.violate("C07.a", "get-all-bytes-error", format!("{e}")),
    }
    if cas.info.chunk_boundary_offsets != want_b || cas.info.unpacked_chunk_offsets != want_u {
        rep.violate("C07.c", "deserialized-offsets", "deserialised info offsets differ".into());
    }
    let mut rng = Rng::new(p.range_seed);
    let mut ranges: Vec<(u32, u32)> = Vec::new();
    if n <= 12 {
        for a in 0..n {
            for e in a + 1..=n {
                ranges.push((a, e));
            }
        }
    } else {
        let very_large = b.data.len() > (16 << 20);
        for _ in 0..if very_large { 3 } else { 40 } {
            let a = rng.below(n as u64) as u32;
            ranges.push((a, a + 1 + rng.below((n - a) as u64) as u32));
        }
        ranges.push((0, n));
        ranges.push((n - 1, n));
    }
    let off = |i: u32| -> usize { if i == 0 { 0 } else { want_u[i as usize - 1] as usize } };
    for (a, e) in &ranges {
        let want = &b.data[off(*a)..off(*e)];
        match cas.get_bytes_by_chunk_range(&mut r, *a, *e) {
            Ok(d) if d == want => {},
            Ok(d) => rep.violate("C07.b", "chunk-range", format!("range {a}..{e}: {} bytes, want {}", d.len(), want.len())),
            Err(er) => rep.violate("C07.b", "chunk-range-error", format!("range {a}..{e}: {er}")),
        }
        match cas.uncompressed_range_length(*a, *e) {
            Ok(l) if l as usize == want.len() => {},
            other => rep.violate("C07.c", "uncompressed-range-length", format!("range {a}..{e}: {other:?}, want {}", want.len())),
        }
    }
    for i in 0..n.min(50) {
        if cas.uncompressed_chunk_length(i).ok() != Some(b.chunks[i as usize].len() as u32) {
            rep.violate("C07.c", "uncompressed-chunk-length", format!("chunk {i}"));
        }
    }
    rep.count("fault:short_reads", r.short_reads);
    rep.count("ranges_checked", ranges.len() as u64);

    // C07.d the three chunk decoders on a chunk range of the stored bytes
    let (a, e) = if b.data.len() > (16 << 20) { (n - 1, n) } else { ranges[rng.usize_below(ranges.len())] };
    let bs = if a == 0 { 0 } else { want_b[a as usize - 1] as usize };
    let be = want_b[e as usize - 1] as usize;
    let section = &b.bytes[bs..be];
    let want_data = &b.data[off(a)..off(e)];
    let want_idx: Vec<u32> = std::iter::once(0u32).chain((a..e).map(|i| (off(i + 1) - off(a)) as u32)).collect();
    let mut sr = ShortReader::new(section, p.reader_seed ^ 5, p.reader_mode.max(1));
    let r_sync = cas_object::deserialize_chunks(&mut sr).map_err(|e| e.to_string());
    let mut ar = TokioShortReader {
        inner: ShortReader::new(section, p.reader_seed ^ 6, p.reader_mode.max(1)),
        pendings: 0,
        pending_p: p.pending_p,
    };
    let r_async = block_on(cas_object::deserialize_async::deserialize_chunks_from_async_read(&mut ar)).map_err(|e| e.to_string());
    let frs = fragments(section, p.reader_seed ^ 7, p.reader_mode.max(1));
    let nfr = frs.len();
    let r_stream = block_on(cas_object::deserialize_async::deserialize_chunks_from_stream(futures::stream::iter(frs))).map_err(|e| e.to_string());
    for (name, r) in [("sync", &r_sync), ("async", &r_async), ("stream", &r_stream)] {
        match r {
            Ok((d, idx)) => {
                if d != want_data || *idx != want_idx {
                    rep.violate("C07.d", &format!("decoder-{name}"), format!("range {a}..{e}: decoder returned {} bytes / {} indices, want {} / {}", d.len(), idx.len(), want_data.len(), want_idx.len()));
                }
            },
            Err(er) => rep.violate("C07.d", &format!("decoder-{name}-error"), format!("range {a}..{e}: {er}")),
        }
    }
    rep.count("fault:short_reads", sr.short_reads + ar.inner.short_reads);
    rep.count("fault:pending_polls", ar.pendings);
    rep.count("fault:stream_fragments", nfr as u64);
    let compressed = parsed.chunks.iter().any(|c| c.0 != 0);
    rep.nontrivial = compressed && (sr.short_reads > 0 || nfr > 1);
    rep.signature = mix(&[p.spec.seed, p.spec.scheme as u64, p.reader_seed, p.reader_mode as u64, n as u64]);
}

// ------------------------------------------------------------------------------------------------
// C08

fn rebuild(chunks: &[(Vec<u8>, u8)]) -> (Vec<u8>, H) {
    // re-serialise a chunk list with a consistent footer; scheme per chunk: 0 None else requested scheme
    let mut data = Vec::new();
    let mut hashes = Vec::new();
    let mut bnd = Vec::new();
    for (c, _) in chunks {
        data.extend_from_slice(c);
        let h = ref_chunk_hash(c);
        hashes.push((h, c.len()));
        bnd.push((m_of(&h), data.len() as u32));
    }
    let hash = ref_merkle_root(&hashes);
    let mut cur = Cursor::new(Vec::new());
    let _ = CasObject::serialize(&mut cur, &m_of(&hash), &data, &bnd, Some(CompressionScheme::None));
    (cur.into_inner(), hash)
}

fn apply_mutation(b: &Built, m: &Mutation) -> (Vec<u8>, H) {
    let mut bytes = b.bytes.clone();
    let mut hash = b.hash;
    let parsed = ref_xorb_parse(&b.bytes).ok();
    let section_len = parsed.as_ref().map(|p| p.chunk_section_len).unwrap_or(0);
    match m {
        Mutation::None => {},
        Mutation::Xor { off, mask } => {
            let i = (*off % bytes.len().max(1) as u64) as usize;
            if !bytes.is_empty() {
                bytes[i] ^= if *mask == 0 { 1 } else { *mask };
            }
        },
        Mutation::Truncate { len } => {
            let l = (*len % (bytes.len() as u64 + 1)) as usize;
            bytes.truncate(l);
        },
        Mutation::DropChunk { i, refooter } | Mutation::DupChunk { i, refooter } => {
            let n = b.chunks.len();
            let i = *i as usize % n;
            let mut list: Vec<(Vec<u8>, u8)> = b.chunks.iter().map(|c| (c.clone(), 0)).collect();
            if matches!(m, Mutation::DropChunk { .. }) {
                if n > 1 {
                    list.remove(i);
                }
            } else {
                let c = list[i].clone();
                list.insert(i, c);
            }
            if *refooter {
                // a consistent object for ANOTHER chunk list: must be accepted for its own hash only
                let (nb, _nh) = rebuild(&list);
                bytes = nb;
                // validated against the ORIGINAL hash below
            } else if let Some(p) = &parsed {
                // splice the raw chunk section, keep the old footer
                let mut offs = vec![0usize];
                offs.extend(p.boundaries.iter().map(|x| *x as usize));
                let mut sect = Vec::new();
                for k in 0..n {
                    if matches!(m, Mutation::DropChunk { .. }) && k == i && n > 1 {
                        continue;
                    }
                    sect.extend_from_slice(&b.bytes[offs[k]..offs[k + 1]]);
                    if matches!(m, Mutation::DupChunk { .. }) && k == i {
                        sect.extend_from_slice(&b.bytes[offs[k]..offs[k + 1]]);
                    }
                }
                sect.extend_from_slice(&b.bytes[section_len..]);
                bytes = sect;
            }
        },
        Mutation::SwapChunks { i, j, refooter } => {
            let n = b.chunks.len();
            let (i, j) = (*i as usize % n, *j as usize % n);
            let mut list: Vec<(Vec<u8>, u8)> = b.chunks.iter().map(|c| (c.clone(), 0)).collect();
            list.swap(i, j);
            if *refooter {
                let (nb, _) = rebuild(&list);
                bytes = nb;
            } else if let Some(p) = &parsed {
                let mut offs = vec![0usize];
                offs.extend(p.boundaries.iter().map(|x| *x as usize));
                let mut order: Vec<usize> = (0..n).collect();
                order.swap(i, j);
                let mut sect = Vec::new();
                for k in order {
                    sect.extend_from_slice(&b.bytes[offs[k]..offs[k + 1]]);
                }
                sect.extend_from_slice(&b.bytes[section_len..]);
                bytes = sect;
            }
        },
        Mutation::SetFooterU32 { field, value } => {
            // u32 fields of the footer: the three chunk counts, every boundary, every unpacked offset, the two section
            // offsets, the trailing info length
            let n = b.chunks.len();
            let fs = section_len;
            let mut fields: Vec<usize> = vec![fs + 48, fs + 52 + 32 * n + 8];
            for k in 0..2 * n {
                fields.push(fs + 52 + 32 * n + 12 + 4 * k);
            }
            let tail = fs + 52 + 32 * n + 12 + 8 * n;
            fields.extend_from_slice(&[tail, tail + 4, tail + 8, bytes.len() - 4]);
            let at = fields[*field as usize % fields.len()];
            if at + 4 <= bytes.len() {
                bytes[at..at + 4].copy_from_slice(&value.to_le_bytes());
            }
        },
        Mutation::FooterEdit { versions, u32s } => {
            let n = b.chunks.len();
            let fs = section_len;
            let mut fields: Vec<usize> = vec![fs + 48, fs + 52 + 32 * n + 8];
            for k in 0..2 * n {
                fields.push(fs + 52 + 32 * n + 12 + 4 * k);
            }
            let tail = fs + 52 + 32 * n + 12 + 8 * n;
            fields.extend_from_slice(&[tail, tail + 4, tail + 8, bytes.len() - 4]);
            for (which, v) in versions {
                let at = match which % 3 {
                    0 => fs + 7,
                    1 => fs + 47,
                    _ => fs + 52 + 32 * n + 7,
                };
                if at < bytes.len() {
                    bytes[at] = *v;
                }
            }
            for (field, value, delta) in u32s {
                let at = fields[*field as usize % fields.len()];
                if at + 4 <= bytes.len() {
                    let old = u32::from_le_bytes(bytes[at..at + 4].try_into().unwrap());
                    let new = if *delta { old.wrapping_add(*value) } else { *value };
                    bytes[at..at + 4].copy_from_slice(&new.to_le_bytes());
                }
            }
        },
        Mutation::FooterCraft { hashes, boundaries, num_chunks } => {
            let n = b.chunks.len() as i64;
            let fs = section_len;
            if parsed.is_some() && bytes.len() >= fs + 52 + 32 * n as usize + 12 + 8 * n as usize + 28 + 4 {
                let f = bytes[fs..bytes.len() - 4].to_vec();
                let nu = n as usize;
                let nh = (n + *hashes as i64).max(0) as usize;
                let nb = (n + *boundaries as i64).max(0) as usize;
                let nc = (n + *num_chunks as i64).max(0) as u32;
                let rd = |at: usize| u32::from_le_bytes(f[at..at + 4].try_into().unwrap());
                let mut out: Vec<u8> = Vec::new();
                out.extend_from_slice(&f[0..48]);
                out.extend_from_slice(&(nh as u32).to_le_bytes());
                for k in 0..nh {
                    let src = k.min(nu.saturating_sub(1));
                    out.extend_from_slice(&f[52 + 32 * src..52 + 32 * src + 32]);
                }
                let bs = 52 + 32 * nu;
                out.extend_from_slice(&f[bs..bs + 8]);
                out.extend_from_slice(&(nb as u32).to_le_bytes());
                for table in 0..2 {
                    let base = bs + 12 + 4 * nu * table;
                    for k in 0..nb {
                        let v = if k < nu { rd(base + 4 * k) } else { rd(base + 4 * (nu - 1)).wrapping_add(8 * (k + 1 - nu) as u32) };
                        out.extend_from_slice(&v.to_le_bytes());
                    }
                }
                let tail = bs + 12 + 8 * nu;
                let dh = 32 * (nh as i64 - n);
                let db = 8 * (nb as i64 - n);
                out.extend_from_slice(&nc.to_le_bytes());
                out.extend_from_slice(&((rd(tail + 4) as i64 + dh + db) as u32).to_le_bytes());
                out.extend_from_slice(&((rd(tail + 8) as i64 + db) as u32).to_le_bytes());
                out.extend_from_slice(&f[tail + 12..]);
                bytes.truncate(fs);
                let info_len = out.len() as u32;
                bytes.extend_from_slice(&out);
                bytes.extend_from_slice(&info_len.to_le_bytes());
            }
        },
        Mutation::StripFooter => bytes.truncate(section_len),
        Mutation::Append { n } => {
            let mut r = Rng::new(*n as u64);
            let extra = r.bytes(1 + *n as usize % 64);
            bytes.extend_from_slice(&extra);
        },
        Mutation::Random { len } => {
            let mut r = Rng::new(*len as u64 ^ b.hash[0] as u64);
            bytes = r.bytes(*len as usize % 4096);
        },
        Mutation::OtherHash => {
            hash[5] ^= 0x40;
        },
    }
    (bytes, hash)
}

pub struct Verdicts {
    pub seekable: Result<Option<CasObject>, String>,
    pub streaming: Result<Option<CasObject>, String>,
    pub panic: Option<String>,
    pub max_alloc: usize,
}

fn validate_both(bytes: &[u8], hash: &H, reader_seed: u64, reader_mode: u32, pending_p: u64) -> Verdicts {
    let mh = m_of(hash);
    crate::alloc_watch::reset();
    let _ = take_last_panic();
    let r = std::panic::catch_unwind(|| {
        let mut cur = Cursor::new(bytes);
        let a = CasObject::validate_cas_object(&mut cur, &mh).map_err(|e| e.to_string());
        let mut ar = AsyncShortReader::new(bytes, reader_seed, reader_mode, pending_p);
        let b = block_on(cas_object::validate_cas_object_from_async_read(&mut ar, &mh))
            .map(|o| o.map(|x| x.0))
            .map_err(|e| e.to_string());
        // the plain footer parser must not panic either
        let mut cur = Cursor::new(bytes);
        let _ = CasObject::deserialize(&mut cur);
        (a, b)
    });
    let max_alloc = crate::alloc_watch::max();
    match r {
        Ok((a, b)) => Verdicts { seekable: a, streaming: b, panic: None, max_alloc },
        Err(_) => Verdicts {
            seekable: Err("panic".into()),
            streaming: Err("panic".into()),
            panic: take_last_panic(),
            max_alloc,
        },
    }
}

/// C08.d: an accepting validator's claims are true of the bytes.
fn check_acceptance(rep: &mut RunReport, which: &str, bytes: &[u8], hash: &H, cas: &CasObject, had_footer_expected: bool, ctx: &str) {
    // The chunk section ends where a footer ident starts at a chunk boundary (or at the end of the bytes when the
    // object carries no footer). With a version-1 footer the independent parser must agree on that position; a
    // version-0 footer is not relied upon by the streaming validator (it regenerates the footer from the chunks).
    let mut section_end = bytes.len();
    {
        let mut pos = 0usize;
        while pos < bytes.len() {
            if bytes.len() - pos >= 7 && &bytes[pos..pos + 7] == b"XETBLOB" {
                section_end = pos;
                break;
            }
            if pos + 8 > bytes.len() {
                break;
            }
            let clen = (bytes[pos + 1] as usize) | (bytes[pos + 2] as usize) << 8 | (bytes[pos + 3] as usize) << 16;
            pos += 8 + clen;
        }
    }
    if had_footer_expected {
        match ref_xorb_parse(bytes) {
            Ok(p) if p.chunk_section_len == section_end => {},
            Ok(p) => {
                rep.violate("C08.d", &format!("{which}:accepted-footer-position"), format!("{ctx}: accepted, but the footer located from the end starts at {} while the chunk list ends at {section_end}", p.chunk_section_len));
                return;
            },
            Err(e) => {
                rep.violate("C08.d", &format!("{which}:accepted-unparsable"), format!("{ctx}: accepted, but the independent parser rejects the footer: {e}"));
                return;
            },
        }
    }
    let sect = &bytes[..section_end];
    let mut pos = 0usize;
    let mut chunks: Vec<(H, usize)> = Vec::new();
    let mut bnd: Vec<u32> = Vec::new();
    let mut unp: Vec<u32> = Vec::new();
    let mut acc_u = 0u32;
    while pos < sect.len() {
        if pos + 8 > sect.len() {
            rep.violate("C08.d", &format!("{which}:accepted-truncated-chunk"), format!("{ctx}: accepted with a truncated chunk header at {pos}"));
            return;
        }
        let clen = (sect[pos + 1] as usize) | (sect[pos + 2] as usize) << 8 | (sect[pos + 3] as usize) << 16;
        let scheme = sect[pos + 4];
        if pos + 8 + clen > sect.len() {
            rep.violate("C08.d", &format!("{which}:accepted-truncated-chunk"), format!("{ctx}: accepted with a truncated chunk payload at {pos}"));
            return;
        }
        let payload = &sect[pos + 8..pos + 8 + clen];
        let data: Vec<u8> = if scheme == 0 {
            payload.to_vec()
        } else {
            match cas_object::deserialize_chunk(&mut Cursor::new(&sect[pos..pos + 8 + clen])) {
                Ok((d, _, _)) => d,
                Err(_) => {
                    rep.violate("C08.d", &format!("{which}:accepted-undecodable-chunk"), format!("{ctx}: accepted although the chunk at {pos} does not decode"));
                    return;
                },
            }
        };
        chunks.push((ref_chunk_hash(&data), data.len()));
        pos += 8 + clen;
        bnd.push(pos as u32);
        acc_u += data.len() as u32;
        unp.push(acc_u);
    }
    if ref_merkle_root(&chunks) != *hash {
        rep.violate("C08.d", &format!("{which}:accepted-wrong-hash"), format!("{ctx}: accepted for {} but the hash recomputed from the {} decoded chunks differs", ref_hex(hash), chunks.len()));
    }
    let i = &cas.info;
    if h_of(&i.cashash) != *hash {
        rep.violate("C08.d", &format!("{which}:returned-hash"), format!("{ctx}: returned footer hash differs from the accepted hash"));
    }
    if i.num_chunks as usize != chunks.len() || i.chunk_hashes.len() != chunks.len() || i.chunk_hashes.iter().zip(chunks.iter()).any(|(a, b)| h_of(a) != b.0) {
        rep.violate("C08.d", &format!("{which}:returned-chunk-hashes"), format!("{ctx}: returned footer chunk hashes/count disagree with the chunk data ({} vs {})", i.num_chunks, chunks.len()));
    }
    if i.chunk_boundary_offsets != bnd {
        rep.violate("C08.d", &format!("{which}:returned-boundaries"), format!("{ctx}: returned chunk_boundary_offsets disagree with the chunk data"));
    }
    if !i.unpacked_chunk_offsets.is_empty() && i.unpacked_chunk_offsets != unp {
        rep.violate("C08.d", &format!("{which}:returned-unpacked-offsets"), format!("{ctx}: returned unpacked_chunk_offsets disagree with the chunk data"));
    }
}

fn judge(rep: &mut RunReport, p: &Plan, b: &Built, m: &Mutation, ctx: &str) {
    let (bytes, hash) = apply_mutation(b, m);
    let v = validate_both(&bytes, &hash, p.reader_seed, p.reader_mode, p.pending_p);
    rep.count("mutants_validated", 1);
    if let Some(pm) = &v.panic {
        rep.violate("C08.a", &format!("panic:{}", panic_site(pm)), format!("{ctx}: validator panicked: {pm}"));
        return;
    }
    if bytes.len() <= 1 << 20 && v.max_alloc >= 64 << 20 {
        rep.violate("C08.b", "huge-allocation", format!("{ctx}: a single allocation of {} bytes while validating {} input bytes", v.max_alloc, bytes.len()));
    }
    let unchanged = bytes == b.bytes && hash == b.hash;
    let acc_seek = matches!(v.seekable, Ok(Some(_)));
    let acc_stream = matches!(v.streaming, Ok(Some(_)));
    if unchanged {
        if !acc_seek {
            rep.violate("C08.c", "valid-rejected-seekable", format!("{ctx}: valid xorb rejected: {:?}", v.seekable.as_ref().map(|o| o.is_some())));
        }
        if !acc_stream {
            rep.violate("C08.c", "valid-rejected-streaming", format!("{ctx}: valid xorb rejected: {:?}", v.streaming.as_ref().map(|o| o.is_some())));
        }
    }
    if matches!(m, Mutation::OtherHash) && (acc_seek || acc_stream) {
        rep.violate("C08.c", "accepted-for-other-hash", format!("{ctx}: valid xorb accepted for a different hash"));
    }
    if matches!(m, Mutation::StripFooter) && !acc_stream {
        rep.count("probe:footerless_rejected_by_streaming", 1);
    }
    if let Ok(Some(cas)) = &v.seekable {
        check_acceptance(rep, "seekable", &bytes, &hash, cas, true, ctx);
    }
    if let Ok(Some(cas)) = &v.streaming {
        let has_footer = ref_xorb_parse(&bytes).is_ok();
        check_acceptance(rep, "streaming", &bytes, &hash, cas, false, ctx);
        let _ = has_footer;
    }
    if !unchanged {
        rep.count("mutants_differing", 1);
        if acc_seek || acc_stream {
            rep.count("probe:mutant_accepted(checked by C08.d)", 1);
        }
        if bytes.len() >= 8 {
            rep.count("probe:mutant_past_ident_check", 1);
        }
    }
}

fn run_c08(p: &Plan, rep: &mut RunReport) {
    let b = build(&p.spec);
    judge(rep, p, &b, &Mutation::None, "unmutated");
    judge(rep, p, &b, &Mutation::OtherHash, "other hash");
    if p.enumerate {
        let Ok(parsed) = ref_xorb_parse(&b.bytes) else { return };
        let fs = parsed.chunk_section_len;
        // every byte of every chunk header and of the footer (+ trailing length)
        let mut offs: Vec<usize> = Vec::new();
        let mut pos = 0usize;
        for (_, payload, _) in &parsed.chunks {
            offs.extend(pos..pos + 8);
            pos += 8 + payload.len();
        }
        offs.extend(fs..b.bytes.len());
        // hash bytes: three flips each; every other byte (chunk headers, idents, versions, counts, offsets, lengths):
        // each single bit and all bits
        let n = parsed.chunks.len();
        let is_hash_byte = |o: usize| (o >= fs + 8 && o < fs + 40) || (o >= fs + 52 && o < fs + 52 + 32 * n);
        for o in &offs {
            let masks: &[u8] = if is_hash_byte(*o) { &[0x01, 0x80, 0xFF] } else { &[0x01, 0x02, 0x04, 0x08, 0x10, 0x20, 0x40, 0x80, 0xFF] };
            for mask in masks {
                judge(rep, p, &b, &Mutation::Xor { off: *o as u64, mask: *mask }, &format!("flip {mask:#x} at {o}"));
            }
        }
        for l in 0..b.bytes.len() {
            judge(rep, p, &b, &Mutation::Truncate { len: l as u64 }, &format!("truncate to {l}"));
        }
        // pairs: every section-version byte set to an older / newer value together with every u32 footer field edited
        // (a version byte can switch a comparison off; the edited field is then what the validator must still catch)
        let n_fields = 2 + 2 * parsed.chunks.len() + 4;
        for which in 0..3u8 {
            for v in [0u8, 2] {
                judge(rep, p, &b, &Mutation::FooterEdit { versions: vec![(which, v)], u32s: vec![] }, &format!("version byte {which} := {v}"));
                for f in 0..n_fields as u32 {
                    for (val, delta) in [(0u32, false), (1, true), (0xFFFF_FFFF, false)] {
                        judge(rep, p, &b, &Mutation::FooterEdit { versions: vec![(which, v)], u32s: vec![(f, val, delta)] }, &format!("version byte {which} := {v}, field {f} {}{val}", if delta { "+" } else { ":= " }));
                    }
                }
            }
        }
        rep.count("enumerated_version_field_pairs", 6 * n_fields as u64 * 3);
        // re-assembled footers whose three chunk counts disagree (tables sized to their own counts, offsets recomputed)
        for h in -1..=1 {
            for bd in -1..=1 {
                for nc in -1..=1 {
                    if (h, bd, nc) != (0, 0, 0) {
                        judge(rep, p, &b, &Mutation::FooterCraft { hashes: h, boundaries: bd, num_chunks: nc }, &format!("footer re-assembled with counts n{h:+} / n{bd:+} / n{nc:+}"));
                    }
                }
            }
        }
        rep.count("enumerated_count_disagreements", 26);
        rep.count("enumerated_objects", 1);
        rep.count("enumerated_offsets", offs.len() as u64 + b.bytes.len() as u64);
    }
    let ctx = format!("{:?}", p.mutation);
    judge(rep, p, &b, &p.mutation, &ctx);
    rep.nontrivial = rep.counters.get("probe:mutant_past_ident_check").copied().unwrap_or(0) > 0;
    rep.signature = mix(&[p.spec.seed, crate::prng::label_hash(&ctx), p.enumerate as u64]);
}

fn gen(seed: u64, run: u64, focus: &str, tier: Tier) -> Plan {
    let mut rng = Rng::stream(seed, run, "xorb");
    if focus == "C07" {
        let big = rng.chance(1, if tier == Tier::Quick { 12 } else { 6 });
        // up to the maximum number of chunks a xorb may hold (small chunks keep such runs cheap)
        let huge = rng.chance(1, if tier == Tier::Quick { 150 } else { 50 });
        let spec = XorbSpec {
            seed: rng.next_u64(),
            n_chunks: if huge {
                *rng.pick(&[1151u32, 1152, 1153, 2048, 8191, 8192, 0, 0, 0]).max(&(rng.log_range(600, 8192) as u32))
            } else if big {
                rng.log_range(1, 600) as u32
            } else {
                rng.log_range(1, 14) as u32
            },
            len_style: if huge { 0 } else if big { rng.below(3) as u32 } else { *rng.pick(&[0u32, 1, 2, 3, 4]) },
            content_mix: rng.below(4) as u32,
            scheme: rng.below(4) as u32,
        };
        let mut spec = spec;
        let mut reader_mode = rng.below(3) as u32;
        if rng.chance(1, if tier == Tier::Quick { 2000 } else { 1500 }) {
            // a completely full xorb: 512 chunks of the maximum chunk size, 64 MiB of incompressible data
            spec.n_chunks = 512;
            spec.len_style = 5;
            spec.content_mix = 0;
            spec.scheme = *rng.pick(&[0u32, 3]);
            reader_mode = 0;
        }
        return Plan {
            spec,
            reader_seed: rng.next_u64(),
            reader_mode,
            pending_p: *rng.pick(&[0u64, 2, 8]),
            range_seed: rng.next_u64(),
            mutation: Mutation::None,
            enumerate: false,
        };
    }
    let enumerate = rng.chance(1, 40);
    // now and then as many (small) chunks as a xorb may legally hold: more than any table preallocation clamp
    let huge = !enumerate && rng.chance(1, if tier == Tier::Quick { 400 } else { 100 });
    let spec = XorbSpec {
        seed: rng.next_u64(),
        n_chunks: if enumerate {
            rng.range(1, 4) as u32
        } else if huge {
            *rng.pick(&[1151u32, 1152, 1153, 2048, 4096, 8192])
        } else {
            rng.log_range(1, 12) as u32
        },
        len_style: if enumerate || huge { 0 } else { rng.below(3) as u32 },
        content_mix: rng.below(4) as u32,
        scheme: if rng.chance(2, 3) { 0 } else { rng.below(4) as u32 },
    };
    let mutation = match rng.below(15) {
        14 => loop {
            let m = (rng.range(0, 3) as i32 - 1, rng.range(0, 3) as i32 - 1, rng.range(0, 3) as i32 - 1);
            if m != (0, 0, 0) {
                break Mutation::FooterCraft { hashes: m.0, boundaries: m.1, num_chunks: m.2 };
            }
        },
        12 | 13 => {
            let mut versions = Vec::new();
            for _ in 0..rng.range(1, 2) {
                versions.push((rng.below(3) as u8, *rng.pick(&[0u8, 0, 2, 255])));
            }
            let mut u32s = Vec::new();
            for _ in 0..rng.range(0, 2) {
                u32s.push((rng.below(64) as u32, *rng.pick(&[0u32, 1, 1, 0xFFFF_FFFF, 7, 1 << 20]), rng.chance(1, 2)));
            }
            Mutation::FooterEdit { versions, u32s }
        },
        0 | 1 => Mutation::Xor { off: rng.next_u64(), mask: *rng.pick(&[1u8, 2, 4, 8, 0x10, 0x20, 0x40, 0x80, 0xFF]) },
        2 => Mutation::Truncate { len: rng.next_u64() },
        3 => Mutation::DropChunk { i: rng.below(16) as u32, refooter: rng.chance(1, 2) },
        4 => Mutation::DupChunk { i: rng.below(16) as u32, refooter: rng.chance(1, 2) },
        5 => Mutation::SwapChunks { i: rng.below(16) as u32, j: rng.below(16) as u32, refooter: rng.chance(1, 2) },
        6 | 7 => Mutation::SetFooterU32 { field: rng.below(64) as u32, value: *rng.pick(&[0u32, 1, 0xFFFF_FFFF, 0x7FFF_FFFF, 0x0100_0000, 1 << 20, 12345]) },
        8 => Mutation::StripFooter,
        9 => Mutation::Append { n: rng.below(1000) as u32 },
        10 => Mutation::Random { len: rng.below(4096) as u32 },
        _ => Mutation::Xor { off: rng.next_u64(), mask: 0xFF },
    };
    Plan {
        spec,
        reader_seed: rng.next_u64(),
        reader_mode: rng.below(3) as u32,
        pending_p: *rng.pick(&[0u64, 2, 8]),
        range_seed: rng.next_u64(),
        mutation,
        enumerate,
    }
}

impl Engine for XorbEngine {
    fn name(&self) -> &'static str {
        "stream/xorb"
    }
    fn properties(&self) -> &'static [&'static str] {
        &["C07", "C08"]
    }
    fn level(&self, focus: &str) -> &'static str {
        if focus == "C08" {
            "fault_enumeration"
        } else {
            "exploration"
        }
    }
    fn budget(&self, focus: &str, tier: Tier) -> Budget {
        match (tier, focus) {
            (Tier::Quick, "C07") => Budget { runs: 40_000, chunk: 500, max_wall_s: 120 },
            (Tier::Thorough, "C07") => Budget { runs: 800_000, chunk: 2_000, max_wall_s: 900 },
            (Tier::Quick, _) => Budget { runs: 500_000, chunk: 5_000, max_wall_s: 120 },
            (Tier::Thorough, _) => Budget { runs: 12_000_000, chunk: 20_000, max_wall_s: 900 },
        }
    }
    fn gen_plan(&self, seed: u64, run: u64, focus: &str, tier: Tier) -> Value {
        serde_json::to_value(gen(seed, run, focus, tier)).unwrap()
    }
    fn execute(&self, plan: &Value, focus: &str) -> RunReport {
        let p: Plan = serde_json::from_value(plan.clone()).expect("xorb plan");
        let mut rep = RunReport::default();
        if focus == "C07" {
            run_c07(&p, &mut rep);
        } else {
            run_c08(&p, &mut rep);
        }
        rep.sample = Some(json!({"spec": p.spec, "reader_mode": p.reader_mode, "pending_p": p.pending_p, "mutation": format!("{:?}", p.mutation), "enumerate": p.enumerate}));
        rep
    }
    fn shrink(&self, plan: &Value) -> Vec<Value> {
        let p: Plan = serde_json::from_value(plan.clone()).expect("xorb plan");
        let mut out = Vec::new();
        if p.spec.n_chunks > 1 {
            let mut q = p.clone();
            q.spec.n_chunks /= 2;
            out.push(q);
            let mut q = p.clone();
            q.spec.n_chunks -= 1;
            out.push(q);
        }
        if p.spec.len_style != 0 {
            let mut q = p.clone();
            q.spec.len_style = 0;
            out.push(q);
        }
        if p.reader_mode != 0 || p.pending_p != 0 {
            let mut q = p.clone();
            q.reader_mode = 0;
            q.pending_p = 0;
            out.push(q);
        }
        if p.enumerate {
            let mut q = p.clone();
            q.enumerate = false;
            out.push(q);
        }
        if p.spec.content_mix != 0 {
            let mut q = p.clone();
            q.spec.content_mix = 0;
            out.push(q);
        }
        out.into_iter().map(|q| serde_json::to_value(q).unwrap()).collect()
    }
    fn rule(&self, focus: &str) -> String {
        if focus == "C07" {
            "Each run: a seeded chunk list (1..600 chunks, one run in 150 (quick) or 50 (thorough) 600..8192 small chunks incl. 1151/1152/1153 and the 8192 maximum; one run in 2000 / 1500 a completely full xorb of 512 maximum-size incompressible chunks (64 MiB); lengths 1 B..128 KiB incl. every residue mod 4, random / compressible / float-like content) is serialised by the real code under None / LZ4 / BG4+LZ4 / automatic, parsed by the independent parser, and read back through a seekable reader with seeded short reads (whole object, every chunk range up to 12 chunks, sampled beyond) — one run in three after a damaged copy of the same object (one compressed payload damaged at its end, in its middle or made inconsistent) has been read on the same thread — and through the three chunk decoders (sync short reads; tokio AsyncRead with short reads and Pending; Stream<Bytes> cut at seeded offsets incl. empty fragments). Non-trivial: a compressed scheme was actually stored and a reader delivered fragments. Distinct: (spec seed, scheme, reader seed, reader mode, chunk count).".into()
        } else {
            "Each run: a valid xorb (with its own hash and with another hash) plus one seeded mutant (byte flip, truncation, dropped/duplicated/swapped chunks with or without a rebuilt footer, overwritten u32 footer fields incl. counts and section offsets, combined footer edits (section-version bytes together with u32 fields), re-assembled footers whose three chunk counts disagree while every table and offset is consistent with its own count, stripped footer, appended bytes, random string); one run in 40 additionally enumerates, for an object of 1-4 small chunks, every single-bit flip and the all-bits flip of every chunk-header and non-hash footer byte (3 masks for hash bytes), truncation at every offset, every pair (one of the three version bytes set to 0 or 2) x (one u32 footer field zeroed, incremented or saturated), and all 26 re-assembled footers with count deltas in {-1,0,+1}^3. Both validators and the footer parser run under catch_unwind with a counting allocator; every acceptance is re-verified independently. Non-trivial: the mutant differs from the original and is at least 8 bytes long (parsing gets past the ident check). Distinct: (spec seed, mutation, enumerate).".into()
        }
    }
    fn real_vs_stub(&self) -> Value {
        json!({"real": ["cas_object::{CasObject::serialize/deserialize/get_*, validate_cas_object, validate_cas_object_from_async_read, serialize_chunk, deserialize_chunks (sync/async/stream), compression schemes, bg4}"], "simulated": ["reader delivery: short reads, Pending, stream fragmentation", "corruption of stored/transmitted bytes"], "reference": ["ref_xorb_parse, ref_chunk_hash, ref_merkle_root", "for compressed chunks the oracle is the original input (C07) or /repo's decoder (C08.d)"]})
    }
    fn assumptions(&self, focus: &str) -> Vec<String> {
        if focus == "C08" {
            vec!["Enumeration is complete over single-bit and all-bit flips of chunk-header and non-hash footer bytes (3 masks for hash bytes), over truncation offsets and over (version byte, u32 field) pairs for the enumerated small objects only; larger objects and multi-byte mutations are sampled.".into(), "C08.d decodes compressed chunks with /repo's own chunk decoder (uncompressed chunks are decoded independently).".into()]
        } else {
            vec!["Inputs are seeded generation; the simulated dimension is reader delivery (DESIGN §7 C07).".into()]
        }
    }
}

#[allow(dead_code)]
fn _unused(_: MerkleHash) {}
