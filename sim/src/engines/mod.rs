pub mod cache;
pub mod chunker;
pub mod crash;
pub mod flight;
pub mod mgrmt;
pub mod recon;
pub mod session;
pub mod shard;
pub mod xorb;

use crate::core::Engine;

pub fn all() -> Vec<&'static dyn Engine> {
    vec![&chunker::ChunkerEngine, &session::SessionEngine, &flight::FlightEngine, &cache::CacheEngine, &shard::ShardEngine, &xorb::XorbEngine, &recon::ReconEngine, &crash::CrashEngine]
}

pub fn for_property(id: &str) -> Option<&'static dyn Engine> {
    all().into_iter().find(|e| e.properties().contains(&id))
}

pub fn by_name(name: &str) -> Option<&'static dyn Engine> {
    all().into_iter().find(|e| e.name() == name)
}
