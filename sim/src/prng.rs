//! One integer decides everything: SplitMix64-seeded xoshiro256**, with named independent sub-streams.

#[derive(Clone, Debug)]
pub struct Rng {
    s: [u64; 4],
}

pub fn splitmix(x: &mut u64) -> u64 {
    *x = x.wrapping_add(0x9E3779B97F4A7C15);
    let mut z = *x;
    z = (z ^ (z >> 30)).wrapping_mul(0xBF58476D1CE4E5B9);
    z = (z ^ (z >> 27)).wrapping_mul(0x94D049BB133111EB);
    z ^ (z >> 31)
}

/// Stateless mix of several words (used for "hash of (seed, run, label, counter)" style draws).
pub fn mix(words: &[u64]) -> u64 {
    let mut h = 0x243F6A8885A308D3u64;
    for &w in words {
        h ^= w;
        let mut t = h;
        h = splitmix(&mut t);
    }
    h
}

pub fn label_hash(s: &str) -> u64 {
    let mut h = 0xcbf29ce484222325u64;
    for b in s.bytes() {
        h ^= b as u64;
        h = h.wrapping_mul(0x100000001b3);
    }
    h
}

impl Rng {
    pub fn new(seed: u64) -> Self {
        let mut x = seed;
        let s = [splitmix(&mut x), splitmix(&mut x), splitmix(&mut x), splitmix(&mut x)];
        Rng { s }
    }

    /// Independent stream for (seed, run index, stream name).
    pub fn stream(seed: u64, run: u64, name: &str) -> Self {
        Rng::new(mix(&[seed, run, label_hash(name)]))
    }

    pub fn fork(&mut self, name: &str) -> Self {
        let a = self.next_u64();
        Rng::new(mix(&[a, label_hash(name)]))
    }

    #[inline]
    pub fn next_u64(&mut self) -> u64 {
        let r = self.s[1].wrapping_mul(5).rotate_left(7).wrapping_mul(9);
        let t = self.s[1] << 17;
        self.s[2] ^= self.s[0];
        self.s[3] ^= self.s[1];
        self.s[1] ^= self.s[2];
        self.s[0] ^= self.s[3];
        self.s[2] ^= t;
        self.s[3] = self.s[3].rotate_left(45);
        r
    }

    /// Uniform in [0, n). n == 0 returns 0.
    #[inline]
    pub fn below(&mut self, n: u64) -> u64 {
        if n <= 1 {
            return 0;
        }
        // multiply-shift; bias is irrelevant here
        ((self.next_u64() as u128 * n as u128) >> 64) as u64
    }

    #[inline]
    pub fn usize_below(&mut self, n: usize) -> usize {
        self.below(n as u64) as usize
    }

    /// Uniform in [lo, hi] inclusive.
    #[inline]
    pub fn range(&mut self, lo: u64, hi: u64) -> u64 {
        debug_assert!(lo <= hi);
        lo + self.below(hi - lo + 1)
    }

    #[inline]
    pub fn urange(&mut self, lo: usize, hi: usize) -> usize {
        self.range(lo as u64, hi as u64) as usize
    }

    /// true with probability num/den
    #[inline]
    pub fn chance(&mut self, num: u64, den: u64) -> bool {
        self.below(den) < num
    }

    pub fn pick<'a, T>(&mut self, xs: &'a [T]) -> &'a T {
        &xs[self.usize_below(xs.len())]
    }

    /// index drawn by integer weights
    pub fn weighted(&mut self, weights: &[u32]) -> usize {
        let total: u64 = weights.iter().map(|&w| w as u64).sum();
        let mut x = self.below(total.max(1));
        for (i, &w) in weights.iter().enumerate() {
            if x < w as u64 {
                return i;
            }
            x -= w as u64;
        }
        weights.len() - 1
    }

    pub fn fill(&mut self, buf: &mut [u8]) {
        let mut chunks = buf.chunks_exact_mut(8);
        for c in &mut chunks {
            c.copy_from_slice(&self.next_u64().to_le_bytes());
        }
        let r = chunks.into_remainder();
        if !r.is_empty() {
            let v = self.next_u64().to_le_bytes();
            let n = r.len();
            r.copy_from_slice(&v[..n]);
        }
    }

    pub fn bytes(&mut self, n: usize) -> Vec<u8> {
        let mut v = vec![0u8; n];
        self.fill(&mut v);
        v
    }

    pub fn shuffle<T>(&mut self, xs: &mut [T]) {
        for i in (1..xs.len()).rev() {
            let j = self.usize_below(i + 1);
            xs.swap(i, j);
        }
    }

    /// log-uniform size in [lo, hi]
    pub fn log_range(&mut self, lo: u64, hi: u64) -> u64 {
        if lo >= hi {
            return lo;
        }
        let l = (lo.max(1) as f64).ln();
        let h = (hi as f64 + 1.0).ln();
        let u = (self.next_u64() >> 11) as f64 / (1u64 << 53) as f64;
        let v = (l + (h - l) * u).exp() as u64;
        v.clamp(lo, hi)
    }
}

/// Cut `total` into fragment sizes; sizes are drawn from a mix of tiny, boundary-hugging and large values.
pub fn fragment_sizes(rng: &mut Rng, total: usize, style: u32, special: &[usize]) -> Vec<usize> {
    let mut out = Vec::new();
    let mut left = total;
    let mut guard = 0;
    while left > 0 {
        guard += 1;
        let n = match style % 6 {
            0 => left,                                             // one call
            1 => rng.urange(0, 3),                                 // tiny incl. empty
            2 => rng.log_range(1, (total as u64).max(1)) as usize, // log-uniform
            3 => {
                // around special sizes
                if special.is_empty() {
                    rng.urange(1, 4096)
                } else {
                    let s = *rng.pick(special);
                    (s as i64 + rng.range(0, 4) as i64 - 2).max(0) as usize
                }
            },
            4 => {
                // mixture
                match rng.below(5) {
                    0 => 0,
                    1 => 1,
                    2 => rng.urange(60, 70),
                    3 => rng.log_range(1, 1 << 20) as usize,
                    _ => {
                        if special.is_empty() {
                            rng.urange(1, 70000)
                        } else {
                            *rng.pick(special)
                        }
                    },
                }
            },
            _ => rng.urange(1, 1 << 16),
        };
        let n = n.min(left);
        // avoid endless runs of empty fragments
        if n == 0 && guard > 4 * (out.len() + 8) {
            continue;
        }
        out.push(n);
        left -= n;
        if out.len() > 100_000 {
            out.push(left);
            break;
        }
    }
    if total == 0 && rng.chance(1, 2) {
        out.push(0);
    }
    out
}
