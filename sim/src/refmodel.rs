//! Independent reference implementations (share no code with /repo; trusted base: blake3, sha2 and the
//! 256-entry gear table, which is the definition of the gear hash).

pub type H = [u8; 32];

pub const ZERO_H: H = [0u8; 32];

const DATA_KEY: [u8; 32] = [
    102, 151, 245, 119, 91, 149, 80, 222, 49, 53, 203, 172, 165, 151, 24, 28, 157, 228, 33, 16, 155, 235, 43, 88, 180,
    208, 176, 75, 147, 173, 242, 41,
];
const INTERNAL_NODE_KEY: [u8; 32] = [
    1, 126, 197, 199, 165, 71, 41, 150, 253, 148, 102, 102, 180, 138, 2, 230, 93, 221, 83, 111, 55, 199, 109, 210, 248,
    99, 82, 230, 74, 83, 113, 63,
];
const VERIFICATION_KEY: [u8; 32] = [
    127, 24, 87, 214, 206, 86, 237, 102, 18, 127, 249, 19, 231, 165, 195, 243, 164, 205, 38, 213, 181, 219, 73, 230,
    65, 36, 152, 127, 40, 251, 148, 195,
];

pub fn ref_chunk_hash(data: &[u8]) -> H {
    *blake3::keyed_hash(&DATA_KEY, data).as_bytes()
}

/// The text form used inside parent-node strings and in pointer files: the 32 bytes read as four
/// little-endian u64 words, each printed as 16 hex digits.
pub fn ref_hex(h: &H) -> String {
    let mut s = String::with_capacity(64);
    for w in 0..4 {
        let mut b = [0u8; 8];
        b.copy_from_slice(&h[w * 8..w * 8 + 8]);
        s.push_str(&format!("{:016x}", u64::from_le_bytes(b)));
    }
    s
}

pub fn ref_from_hex(s: &str) -> Option<H> {
    if s.len() != 64 {
        return None;
    }
    let mut h = [0u8; 32];
    for w in 0..4 {
        let v = u64::from_str_radix(&s[w * 16..w * 16 + 16], 16).ok()?;
        h[w * 8..w * 8 + 8].copy_from_slice(&v.to_le_bytes());
    }
    Some(h)
}

/// Aggregate (xorb / unsalted file) hash of a chunk list: level-wise merge; a parent is closed after a child
/// when it already has >= 3 children and the child's last word is divisible by 4, or it has 9 children, or the
/// child is the last of the level. A single node is its own root.
pub fn ref_merkle_root(chunks: &[(H, usize)]) -> H {
    if chunks.is_empty() {
        return ZERO_H;
    }
    let mut level: Vec<(H, usize)> = chunks.to_vec();
    while level.len() > 1 {
        let mut next = Vec::with_capacity(level.len() / 2 + 1);
        let mut start = 0usize;
        for i in 0..level.len() {
            let before = i - start;
            let mut w = [0u8; 8];
            w.copy_from_slice(&level[i].0[24..32]);
            let last_word = u64::from_le_bytes(w);
            if (before >= 2 && last_word % 4 == 0) || before >= 8 || i + 1 == level.len() {
                let mut text = String::new();
                let mut total = 0usize;
                for (h, l) in &level[start..=i] {
                    text.push_str(&ref_hex(h));
                    text.push_str(" : ");
                    text.push_str(&l.to_string());
                    text.push('\n');
                    total += *l;
                }
                let ph = *blake3::keyed_hash(&INTERNAL_NODE_KEY, text.as_bytes()).as_bytes();
                next.push((ph, total));
                start = i + 1;
            }
        }
        level = next;
    }
    level[0].0
}

pub fn ref_file_hash(chunks: &[(H, usize)], salt: &[u8; 32]) -> H {
    if chunks.is_empty() {
        return ZERO_H;
    }
    let root = ref_merkle_root(chunks);
    *blake3::keyed_hash(salt, &root).as_bytes()
}

pub fn ref_range_hash(chunk_hashes: &[H]) -> H {
    let mut buf = Vec::with_capacity(chunk_hashes.len() * 32);
    for h in chunk_hashes {
        buf.extend_from_slice(h);
    }
    *blake3::keyed_hash(&VERIFICATION_KEY, &buf).as_bytes()
}

pub fn ref_hmac(h: &H, key: &H) -> H {
    *blake3::keyed_hash(key, h).as_bytes()
}

pub fn ref_sha256(data: &[u8]) -> H {
    use sha2::Digest;
    let d = sha2::Sha256::digest(data);
    let mut h = [0u8; 32];
    h.copy_from_slice(&d);
    h
}

/// Reference content-defined chunker, one pass over the whole stream. Returns chunk lengths.
pub fn ref_chunker(data: &[u8], target: usize) -> Vec<usize> {
    let table = &gearhash::DEFAULT_TABLE;
    let mask_low = (target - 1) as u64;
    let mask = mask_low << mask_low.leading_zeros();
    let min = target / 8;
    let max = target * 2;
    let skip = if min > 64 + 1 { min - 64 - 1 } else { 0 };
    let mut out = Vec::new();
    let mut start = 0usize;
    let n = data.len();
    while start < n {
        let mut h: u64 = 0;
        let mut pos = start + skip; // first hashed byte
        let mut cut = None;
        let hard_end = (start + max).min(n);
        if pos > hard_end {
            pos = hard_end;
        }
        while pos < hard_end {
            h = (h << 1).wrapping_add(table[data[pos] as usize]);
            pos += 1;
            if h & mask == 0 {
                cut = Some(pos);
                break;
            }
        }
        let end = match cut {
            Some(c) => c,
            None => hard_end,
        };
        out.push(end - start);
        start = end;
    }
    out
}

/// Convenience: (hash, len) list of the reference chunking of `data`.
pub fn ref_chunk_list(data: &[u8], target: usize) -> Vec<(H, usize)> {
    let mut out = Vec::new();
    let mut pos = 0;
    for l in ref_chunker(data, target) {
        out.push((ref_chunk_hash(&data[pos..pos + l]), l));
        pos += l;
    }
    out
}

#[inline]
pub fn h_of(m: &merklehash::MerkleHash) -> H {
    let mut h = [0u8; 32];
    h.copy_from_slice(m.as_bytes());
    h
}

#[inline]
pub fn m_of(h: &H) -> merklehash::MerkleHash {
    merklehash::MerkleHash::from(h)
}
