//! Independent reference implementations (share no code with /repo; trusted base: blake3, sha2 and the
//! 256-entry gear table, which is the definition of the gear hash).

pub type H = [u8; 32];

pub const ZERO_H: H = [0u8; 32];

const DATA_KEY: [u8; 32] = [
    102, 151, 245, 119, 91, 149, 80, 222, 49, 53, 203, 172, 165, 151, 24, 28, 157, 228, 33, 16, 155, 235, 43, 88, 180,
    208, 176, 75, 147, 173, 242, 41,
];
const INTERNAL_NODE_KEY: [u8; 32] = [
    1, 126, 197, 199, 165, 71, 41, 150, 253, 148, 102, 102, 180, 138, 2, 230, 93, 221, 83, 111, 55, 199, 109, 210, 248,
    99, 82, 230, 74, 83, 113, 63,
];
const VERIFICATION_KEY: [u8; 32] = [
    127, 24, 87, 214, 206, 86, 237, 102, 18, 127, 249, 19, 231, 165, 195, 243, 164, 205, 38, 213, 181, 219, 73, 230,
    65, 36, 152, 127, 40, 251, 148, 195,
];

pub fn ref_chunk_hash(data: &[u8]) -> H {
    *blake3::keyed_hash(&DATA_KEY, data).as_bytes()
}

/// The text form used inside parent-node strings and in pointer files: the 32 bytes read as four
/// little-endian u64 words, each printed as 16 hex digits.
pub fn ref_hex(h: &H) -> String {
    let mut s = String::with_capacity(64);
    for w in 0..4 {
        let mut b = [0u8; 8];
        b.copy_from_slice(&h[w * 8..w * 8 + 8]);
        s.push_str(&format!("{:016x}", u64::from_le_bytes(b)));
    }
    s
}

pub fn ref_from_hex(s: &str) -> Option<H> {
    if s.len() != 64 {
        return None;
    }
    let mut h = [0u8; 32];
    for w in 0..4 {
        let v = u64::from_str_radix(&s[w * 16..w * 16 + 16], 16).ok()?;
        h[w * 8..w * 8 + 8].copy_from_slice(&v.to_le_bytes());
    }
    Some(h)
}

/// Aggregate (xorb / unsalted file) hash of a chunk list: level-wise merge; a parent is closed after a child
/// when it already has >= 3 children and the child's last word is divisible by 4, or it has 9 children, or the
/// child is the last of the level. A single node is its own root.
pub fn ref_merkle_root(chunks: &[(H, usize)]) -> H {
    if chunks.is_empty() {
        return ZERO_H;
    }
    let mut level: Vec<(H, usize)> = chunks.to_vec();
    while level.len() > 1 {
        let mut next = Vec::with_capacity(level.len() / 2 + 1);
        let mut start = 0usize;
        for i in 0..level.len() {
            let before = i - start;
            let mut w = [0u8; 8];
            w.copy_from_slice(&level[i].0[24..32]);
            let last_word = u64::from_le_bytes(w);
            if (before >= 2 && last_word % 4 == 0) || before >= 8 || i + 1 == level.len() {
                let mut text = String::new();
                let mut total = 0usize;
                for (h, l) in &level[start..=i] {
                    text.push_str(&ref_hex(h));
                    text.push_str(" : ");
                    text.push_str(&l.to_string());
                    text.push('\n');
                    total += *l;
                }
                let ph = *blake3::keyed_hash(&INTERNAL_NODE_KEY, text.as_bytes()).as_bytes();
                next.push((ph, total));
                start = i + 1;
            }
        }
        level = next;
    }
    level[0].0
}

pub fn ref_file_hash(chunks: &[(H, usize)], salt: &[u8; 32]) -> H {
    if chunks.is_empty() {
        return ZERO_H;
    }
    let root = ref_merkle_root(chunks);
    *blake3::keyed_hash(salt, &root).as_bytes()
}

pub fn ref_range_hash(chunk_hashes: &[H]) -> H {
    let mut buf = Vec::with_capacity(chunk_hashes.len() * 32);
    for h in chunk_hashes {
        buf.extend_from_slice(h);
    }
    *blake3::keyed_hash(&VERIFICATION_KEY, &buf).as_bytes()
}

pub fn ref_hmac(h: &H, key: &H) -> H {
    *blake3::keyed_hash(key, h).as_bytes()
}

pub fn ref_sha256(data: &[u8]) -> H {
    use sha2::Digest;
    let d = sha2::Sha256::digest(data);
    let mut h = [0u8; 32];
    h.copy_from_slice(&d);
    h
}

/// Reference content-defined chunker, one pass over the whole stream. Returns chunk lengths.
pub fn ref_chunker(data: &[u8], target: usize) -> Vec<usize> {
    let table = &gearhash::DEFAULT_TABLE;
    let mask_low = (target - 1) as u64;
    let mask = mask_low << mask_low.leading_zeros();
    let min = target / 8;
    let max = target * 2;
    let skip = if min > 64 + 1 { min - 64 - 1 } else { 0 };
    let mut out = Vec::new();
    let mut start = 0usize;
    let n = data.len();
    while start < n {
        let mut h: u64 = 0;
        let mut pos = start + skip; // first hashed byte
        let mut cut = None;
        let hard_end = (start + max).min(n);
        if pos > hard_end {
            pos = hard_end;
        }
        while pos < hard_end {
            h = (h << 1).wrapping_add(table[data[pos] as usize]);
            pos += 1;
            if h & mask == 0 {
                cut = Some(pos);
                break;
            }
        }
        let end = match cut {
            Some(c) => c,
            None => hard_end,
        };
        out.push(end - start);
        start = end;
    }
    out
}

/// Convenience: (hash, len) list of the reference chunking of `data`.
pub fn ref_chunk_list(data: &[u8], target: usize) -> Vec<(H, usize)> {
    let mut out = Vec::new();
    let mut pos = 0;
    for l in ref_chunker(data, target) {
        out.push((ref_chunk_hash(&data[pos..pos + l]), l));
        pos += l;
    }
    out
}

#[inline]
pub fn h_of(m: &merklehash::MerkleHash) -> H {
    let mut h = [0u8; 32];
    h.copy_from_slice(m.as_bytes());
    h
}

#[inline]
pub fn m_of(h: &H) -> merklehash::MerkleHash {
    merklehash::MerkleHash::from(h)
}

// ---------------------------------------------------------------------------------------------
// Independent shard parser (from the file format: 48-byte header, 48-byte records with all-ones bookends,
// three lookup tables, 200-byte footer).

pub const SHARD_TAG: [u8; 32] = [
    b'H', b'F', b'R', b'e', b'p', b'o', b'M', b'e', b't', b'a', b'D', b'a', b't', b'a', 0, 85, 105, 103, 69, 106, 123,
    129, 87, 131, 165, 189, 217, 92, 205, 209, 74, 169,
];
pub const SHARD_HEADER_LEN: usize = 48;
pub const SHARD_FOOTER_LEN: usize = 200;
pub const FLAG_VERIFICATION: u32 = 1 << 31;
pub const FLAG_METADATA_EXT: u32 = 1 << 30;

#[derive(Clone, Debug, PartialEq, Eq)]
pub struct RefSegment {
    pub xorb: H,
    pub flags: u32,
    pub bytes: u32,
    pub start: u32,
    pub end: u32,
}

#[derive(Clone, Debug, PartialEq, Eq)]
pub struct RefFile {
    pub hash: H,
    pub flags: u32,
    pub segments: Vec<RefSegment>,
    pub verification: Vec<H>,
    pub sha256: Option<H>,
}

#[derive(Clone, Debug, PartialEq, Eq)]
pub struct RefXorbRec {
    pub hash: H,
    pub flags: u32,
    pub num_bytes: u32,
    pub num_bytes_on_disk: u32,
    /// (chunk hash, length, byte start)
    pub chunks: Vec<(H, u32, u32)>,
}

#[derive(Clone, Debug, Default)]
pub struct RefFooter {
    pub version: u64,
    pub file_info_offset: u64,
    pub cas_info_offset: u64,
    pub file_lookup_offset: u64,
    pub file_lookup_num: u64,
    pub cas_lookup_offset: u64,
    pub cas_lookup_num: u64,
    pub chunk_lookup_offset: u64,
    pub chunk_lookup_num: u64,
    pub hmac_key: H,
    pub creation: u64,
    pub expiry: u64,
    pub stored_bytes_on_disk: u64,
    pub materialized_bytes: u64,
    pub stored_bytes: u64,
    pub footer_offset: u64,
}

#[derive(Clone, Debug, Default)]
pub struct RefShard {
    pub header_version: u64,
    pub footer_size: u64,
    pub files: Vec<RefFile>,
    /// record index (in 48-byte units from the start of the file section) of each file header
    pub file_index: Vec<u32>,
    pub xorbs: Vec<RefXorbRec>,
    pub xorb_index: Vec<u32>,
    pub footer: RefFooter,
    pub file_lookup: Vec<(u64, u32)>,
    pub cas_lookup: Vec<(u64, u32)>,
    pub chunk_lookup: Vec<(u64, u32, u32)>,
}

fn rd_u32(b: &[u8], off: usize) -> Result<u32, String> {
    b.get(off..off + 4)
        .map(|s| u32::from_le_bytes([s[0], s[1], s[2], s[3]]))
        .ok_or_else(|| format!("short read u32 at {off}"))
}
fn rd_u64(b: &[u8], off: usize) -> Result<u64, String> {
    b.get(off..off + 8)
        .map(|s| u64::from_le_bytes([s[0], s[1], s[2], s[3], s[4], s[5], s[6], s[7]]))
        .ok_or_else(|| format!("short read u64 at {off}"))
}
fn rd_h(b: &[u8], off: usize) -> Result<H, String> {
    b.get(off..off + 32)
        .map(|s| {
            let mut h = [0u8; 32];
            h.copy_from_slice(s);
            h
        })
        .ok_or_else(|| format!("short read hash at {off}"))
}

pub fn trunc(h: &H) -> u64 {
    u64::from_le_bytes([h[0], h[1], h[2], h[3], h[4], h[5], h[6], h[7]])
}

pub fn ref_shard_parse(b: &[u8]) -> Result<RefShard, String> {
    let mut s = RefShard::default();
    if b.len() < SHARD_HEADER_LEN + SHARD_FOOTER_LEN {
        return Err(format!("too short for a shard: {}", b.len()));
    }
    if b[..32] != SHARD_TAG {
        return Err("bad tag".into());
    }
    s.header_version = rd_u64(b, 32)?;
    s.footer_size = rd_u64(b, 40)?;
    if s.footer_size as usize != SHARD_FOOTER_LEN {
        return Err(format!("footer size {}", s.footer_size));
    }
    let fo = b.len() - SHARD_FOOTER_LEN;
    let f = &mut s.footer;
    f.version = rd_u64(b, fo)?;
    f.file_info_offset = rd_u64(b, fo + 8)?;
    f.cas_info_offset = rd_u64(b, fo + 16)?;
    f.file_lookup_offset = rd_u64(b, fo + 24)?;
    f.file_lookup_num = rd_u64(b, fo + 32)?;
    f.cas_lookup_offset = rd_u64(b, fo + 40)?;
    f.cas_lookup_num = rd_u64(b, fo + 48)?;
    f.chunk_lookup_offset = rd_u64(b, fo + 56)?;
    f.chunk_lookup_num = rd_u64(b, fo + 64)?;
    f.hmac_key = rd_h(b, fo + 72)?;
    f.creation = rd_u64(b, fo + 104)?;
    f.expiry = rd_u64(b, fo + 112)?;
    // 6 reserved words
    f.stored_bytes_on_disk = rd_u64(b, fo + 168)?;
    f.materialized_bytes = rd_u64(b, fo + 176)?;
    f.stored_bytes = rd_u64(b, fo + 184)?;
    f.footer_offset = rd_u64(b, fo + 192)?;
    let footer = s.footer.clone();
    if footer.footer_offset as usize != fo {
        return Err(format!("footer_offset {} but footer starts at {}", footer.footer_offset, fo));
    }
    // file section
    let mut pos = footer.file_info_offset as usize;
    if pos != SHARD_HEADER_LEN {
        return Err(format!("file section at {pos}"));
    }
    let base = pos;
    loop {
        let h = rd_h(b, pos)?;
        if h == [0xffu8; 32] {
            pos += 48;
            break;
        }
        let flags = rd_u32(b, pos + 32)?;
        let n = rd_u32(b, pos + 36)? as usize;
        s.file_index.push(((pos - base) / 48) as u32);
        pos += 48;
        let mut segs = Vec::with_capacity(n.min(1 << 16));
        for _ in 0..n {
            segs.push(RefSegment {
                xorb: rd_h(b, pos)?,
                flags: rd_u32(b, pos + 32)?,
                bytes: rd_u32(b, pos + 36)?,
                start: rd_u32(b, pos + 40)?,
                end: rd_u32(b, pos + 44)?,
            });
            pos += 48;
        }
        let mut ver = Vec::new();
        if flags & FLAG_VERIFICATION != 0 {
            for _ in 0..n {
                ver.push(rd_h(b, pos)?);
                pos += 48;
            }
        }
        let sha = if flags & FLAG_METADATA_EXT != 0 {
            let x = rd_h(b, pos)?;
            pos += 48;
            Some(x)
        } else {
            None
        };
        s.files.push(RefFile {
            hash: h,
            flags,
            segments: segs,
            verification: ver,
            sha256: sha,
        });
    }
    if pos != footer.cas_info_offset as usize {
        return Err(format!("cas section expected at {pos}, footer says {}", footer.cas_info_offset));
    }
    let base = pos;
    loop {
        let h = rd_h(b, pos)?;
        if h == [0xffu8; 32] {
            pos += 48;
            break;
        }
        let flags = rd_u32(b, pos + 32)?;
        let n = rd_u32(b, pos + 36)? as usize;
        let nb = rd_u32(b, pos + 40)?;
        let nd = rd_u32(b, pos + 44)?;
        s.xorb_index.push(((pos - base) / 48) as u32);
        pos += 48;
        let mut chunks = Vec::with_capacity(n.min(1 << 16));
        for _ in 0..n {
            let ch = rd_h(b, pos)?;
            let start = rd_u32(b, pos + 32)?;
            let len = rd_u32(b, pos + 36)?;
            chunks.push((ch, len, start));
            pos += 48;
        }
        s.xorbs.push(RefXorbRec {
            hash: h,
            flags,
            num_bytes: nb,
            num_bytes_on_disk: nd,
            chunks,
        });
    }
    // lookup tables (may be absent: num == 0)
    if footer.file_lookup_num > 0 || footer.cas_lookup_num > 0 || footer.chunk_lookup_num > 0 {
        if pos != footer.file_lookup_offset as usize {
            return Err(format!("file lookup expected at {pos}, footer says {}", footer.file_lookup_offset));
        }
    }
    let mut p = footer.file_lookup_offset as usize;
    for _ in 0..footer.file_lookup_num {
        s.file_lookup.push((rd_u64(b, p)?, rd_u32(b, p + 8)?));
        p += 12;
    }
    if footer.cas_lookup_num > 0 && p != footer.cas_lookup_offset as usize {
        return Err("cas lookup offset".into());
    }
    let mut p = footer.cas_lookup_offset as usize;
    for _ in 0..footer.cas_lookup_num {
        s.cas_lookup.push((rd_u64(b, p)?, rd_u32(b, p + 8)?));
        p += 12;
    }
    if footer.chunk_lookup_num > 0 && p != footer.chunk_lookup_offset as usize {
        return Err("chunk lookup offset".into());
    }
    let mut p = footer.chunk_lookup_offset as usize;
    for _ in 0..footer.chunk_lookup_num {
        s.chunk_lookup.push((rd_u64(b, p)?, rd_u32(b, p + 8)?, rd_u32(b, p + 12)?));
        p += 16;
    }
    if footer.file_lookup_num + footer.cas_lookup_num + footer.chunk_lookup_num > 0 && p != fo {
        return Err(format!("tables end at {p}, footer at {fo}"));
    }
    Ok(s)
}

// ---------------------------------------------------------------------------------------------
// Independent xorb parser: chunk section of 8-byte headers + payload, V1 footer, trailing info length.

#[derive(Clone, Debug, Default)]
pub struct RefXorbFile {
    /// (scheme byte, compressed payload, declared uncompressed length)
    pub chunks: Vec<(u8, Vec<u8>, u32)>,
    pub footer_hash: H,
    pub footer_chunk_hashes: Vec<H>,
    pub boundaries: Vec<u32>,
    pub unpacked: Vec<u32>,
    pub num_chunks: u32,
    pub chunk_section_len: usize,
}

pub fn ref_xorb_parse(b: &[u8]) -> Result<RefXorbFile, String> {
    if b.len() < 4 {
        return Err("too short".into());
    }
    let info_len = rd_u32(b, b.len() - 4)? as usize;
    if info_len + 4 > b.len() {
        return Err("info length exceeds object".into());
    }
    let fs = b.len() - 4 - info_len;
    let mut x = RefXorbFile {
        chunk_section_len: fs,
        ..Default::default()
    };
    // footer
    let f = &b[fs..b.len() - 4];
    if f.len() < 92 || &f[0..7] != b"XETBLOB" {
        return Err("footer ident".into());
    }
    if f[7] != 1 {
        return Err(format!("footer version {}", f[7]));
    }
    x.footer_hash = rd_h(f, 8)?;
    let mut p = 40;
    if &f[p..p + 7] != b"XBLBHSH" {
        return Err("hash section ident".into());
    }
    p += 8;
    let n = rd_u32(f, p)? as usize;
    p += 4;
    for _ in 0..n {
        x.footer_chunk_hashes.push(rd_h(f, p)?);
        p += 32;
    }
    if f.get(p..p + 7) != Some(b"XBLBBND") {
        return Err("boundary section ident".into());
    }
    p += 8;
    let n2 = rd_u32(f, p)? as usize;
    p += 4;
    if n2 != n {
        return Err("chunk count mismatch".into());
    }
    for _ in 0..n {
        x.boundaries.push(rd_u32(f, p)?);
        p += 4;
    }
    for _ in 0..n {
        x.unpacked.push(rd_u32(f, p)?);
        p += 4;
    }
    x.num_chunks = rd_u32(f, p)?;
    p += 12 + 16;
    if p != f.len() {
        return Err(format!("footer length {} but parsed {}", f.len(), p));
    }
    // chunk section
    let mut pos = 0usize;
    while pos < fs {
        if pos + 8 > fs {
            return Err("truncated chunk header".into());
        }
        let clen = (b[pos + 1] as usize) | (b[pos + 2] as usize) << 8 | (b[pos + 3] as usize) << 16;
        let scheme = b[pos + 4];
        let ulen = (b[pos + 5] as u32) | (b[pos + 6] as u32) << 8 | (b[pos + 7] as u32) << 16;
        if b[pos] != 0 {
            return Err("chunk header version".into());
        }
        pos += 8;
        if pos + clen > fs {
            return Err("truncated chunk payload".into());
        }
        x.chunks.push((scheme, b[pos..pos + clen].to_vec(), ulen));
        pos += clen;
    }
    Ok(x)
}
