//! Simulated store: implements `cas_client::Client` around a real `LocalClient`, adding gates (simulated
//! latency on the paused tokio clock), fault injection and a call log stamped with global event sequence numbers.

use std::collections::{BTreeMap, HashMap, HashSet};
use std::path::PathBuf;
use std::sync::{Arc, Mutex};
use std::time::Duration;

use async_trait::async_trait;
use cas_client::{
    CasClientError, Client, LocalClient, OutputProvider, ReconstructionClient, ShardClientInterface, UploadClient,
    VerifRegistrationClient, VerifShardDedupProber,
};
use cas_types::FileRange;
use mdb_shard::file_structs::MDBFileInfo;
use mdb_shard::shard_file_reconstructor::FileReconstructor;
use merklehash::MerkleHash;
use serde::{Deserialize, Serialize};
use utils::progress::ProgressUpdater;

use crate::prng::{label_hash, mix};

type CResult<T> = std::result::Result<T, CasClientError>;
use crate::refmodel::*;

#[derive(Clone, Copy, Debug, Serialize, Deserialize, PartialEq, Eq)]
pub enum FaultMode {
    /// the call fails before it has any effect
    FailBefore,
    /// the call takes effect, the reply is lost (caller sees an error)
    FailAfter,
}

#[derive(Clone, Debug, Serialize, Deserialize, PartialEq, Eq)]
pub struct FaultSpec {
    /// "put" | "upload_shard" | "query"
    pub kind: String,
    /// index among the calls of that kind, counted over the whole run
    pub index: u64,
    pub mode: FaultMode,
}

#[derive(Clone, Debug)]
pub struct PutRecord {
    pub op: u64,
    pub session: usize,
    pub hash: H,
    pub data_len: usize,
    pub chunks: Vec<(H, u32)>,
    pub invoke_seq: u64,
    pub return_seq: Option<u64>,
    pub result: Option<Result<usize, String>>,
    pub faulted: bool,
}

#[derive(Clone, Debug)]
pub struct ShardRecord {
    pub op: u64,
    pub session: usize,
    pub hash: H,
    pub bytes: Vec<u8>,
    pub invoke_seq: u64,
    pub return_seq: Option<u64>,
    pub ok: Option<bool>,
    pub faulted: bool,
}

#[derive(Default)]
pub struct StoreState {
    pub schedule_seed: u64,
    /// 0 zero latency (FIFO); 1 uniform 1..1000 ms; 2 heavy tail with rare very long calls; 3 reverse (later calls
    /// finish first); 4 two-valued (ties)
    pub latency_mode: u32,
    pub seq: u64,
    pub trace: Vec<String>,
    pub trace_on: bool,
    pub counters: HashMap<&'static str, u64>,
    pub faults: HashMap<(String, u64), FaultMode>,
    pub faults_fired: BTreeMap<String, u64>,
    pub puts: Vec<PutRecord>,
    pub shards: Vec<ShardRecord>,
    pub session: usize,
    /// xorbs for which some put returned Ok (this or earlier sessions)
    pub ok_xorbs: HashSet<H>,
    pub cache_dir: PathBuf,
    /// violations detected inside the store (clause, site, detail)
    pub violations: Vec<(String, String, String)>,
    pub return_order: Vec<u64>,
    pub limits: (usize, usize),
    pub in_flight: u64,
    pub max_in_flight: u64,
    pub fault_overlapped: u64,
    /// acquisitions of a session lock (H8) before which the simulator let other tasks run
    pub lock_delays: u64,
    pub queries: u64,
    pub query_hits: u64,
    /// the current session is a dry run: the client behaves like a dry-run remote client — uploads are accepted and
    /// nothing is stored or recorded
    pub dry: bool,
    pub dry_calls: u64,
}

impl StoreState {
    pub fn next_seq(&mut self) -> u64 {
        self.seq += 1;
        self.seq
    }
    pub fn log(&mut self, s: String) {
        if self.trace_on {
            let q = self.seq;
            self.trace.push(format!("{q} {s}"));
        }
    }
    pub fn latency_ms(&self, kind: &str, idx: u64) -> u64 {
        let r = mix(&[self.schedule_seed, label_hash(kind), idx]);
        match self.latency_mode {
            0 => 0,
            1 => 1 + r % 1000,
            2 => match r % 16 {
                0 => 3_600_000 + (r >> 8) % 1000,
                1 | 2 => 10_000 + (r >> 8) % 50_000,
                _ => 1 + (r >> 8) % 20,
            },
            3 => 100_000u64.saturating_sub(idx * 37 + label_hash(kind) % 7),
            _ => {
                if r % 2 == 0 {
                    5
                } else {
                    50
                }
            },
        }
    }
}

pub struct SimStore {
    pub inner: Arc<LocalClient>,
    pub st: Arc<Mutex<StoreState>>,
}

impl SimStore {
    async fn gate(&self, kind: &'static str) -> (u64, Option<FaultMode>) {
        let (idx, ms, fault) = {
            let mut st = self.st.lock().unwrap();
            let c = st.counters.entry(kind).or_insert(0);
            let idx = *c;
            *c += 1;
            let ms = st.latency_ms(kind, idx);
            let fault = st.faults.get(&(kind.to_string(), idx)).copied();
            (idx, ms, fault)
        };
        if ms > 0 {
            tokio::time::sleep(Duration::from_millis(ms)).await;
        } else {
            tokio::task::yield_now().await;
        }
        (idx, fault)
    }
}

fn injected() -> CasClientError {
    CasClientError::Other("xsim: injected store failure".to_string())
}

#[async_trait]
impl UploadClient for SimStore {
    async fn put(
        &self,
        prefix: &str,
        hash: &MerkleHash,
        data: Vec<u8>,
        chunk_and_boundaries: Vec<(MerkleHash, u32)>,
    ) -> CResult<usize> {
        {
            let mut st = self.st.lock().unwrap();
            if st.dry {
                st.dry_calls += 1;
                return Ok(data.len());
            }
        }
        let h = h_of(hash);
        let rec_idx;
        {
            let mut st = self.st.lock().unwrap();
            let seq = st.next_seq();
            st.in_flight += 1;
            st.max_in_flight = st.max_in_flight.max(st.in_flight);
            let op = st.puts.len() as u64;
            // C15: inspect the arguments of every put
            let (max_bytes, max_chunks) = st.limits;
            let n = chunk_and_boundaries.len();
            if n == 0 || data.is_empty() {
                st.violations.push(("C15.a".into(), "empty-xorb".into(), format!("put #{op} with {n} chunks, {} bytes", data.len())));
            }
            if n > max_chunks {
                st.violations.push(("C15.b".into(), "max-chunks".into(), format!("put #{op} with {n} chunks > limit {max_chunks}")));
            }
            if data.len() > max_bytes {
                st.violations.push(("C15.b".into(), "max-bytes".into(), format!("put #{op} with {} bytes > limit {max_bytes}", data.len())));
            }
            let mut prev = 0u32;
            for (i, (_, b)) in chunk_and_boundaries.iter().enumerate() {
                if *b <= prev {
                    st.violations.push(("C15.c".into(), "boundaries".into(), format!("put #{op}: boundary #{i} = {b} not above {prev}")));
                    break;
                }
                if (*b - prev) as usize > 128 * 1024 {
                    st.violations.push(("C15.c".into(), "chunk-size".into(), format!("put #{op}: chunk #{i} has {} bytes", b - prev)));
                    break;
                }
                prev = *b;
            }
            if n > 0 && prev as usize != data.len() {
                st.violations.push(("C15.c".into(), "last-boundary".into(), format!("put #{op}: last boundary {prev} != data length {}", data.len())));
            }
            let session = st.session;
            st.log(format!("invoke put#{op} {} chunks={n} bytes={}", ref_hex(&h), data.len()));
            st.puts.push(PutRecord {
                op,
                session,
                hash: h,
                data_len: data.len(),
                chunks: chunk_and_boundaries.iter().map(|(c, b)| (h_of(c), *b)).collect(),
                invoke_seq: seq,
                return_seq: None,
                result: None,
                faulted: false,
            });
            rec_idx = st.puts.len() - 1;
        }
        let (_idx, fault) = self.gate("put").await;
        let res: CResult<usize> = match fault {
            Some(FaultMode::FailBefore) => Err(injected()),
            Some(FaultMode::FailAfter) => {
                let _ = self.inner.put(prefix, hash, data, chunk_and_boundaries).await;
                Err(injected())
            },
            None => self.inner.put(prefix, hash, data, chunk_and_boundaries).await,
        };
        {
            let mut st = self.st.lock().unwrap();
            let seq = st.next_seq();
            st.in_flight -= 1;
            if let Some(f) = fault {
                *st.faults_fired.entry(format!("put:{f:?}")).or_insert(0) += 1;
                if st.in_flight > 0 {
                    st.fault_overlapped += 1;
                }
            }
            let r = &mut st.puts[rec_idx];
            r.return_seq = Some(seq);
            r.faulted = fault.is_some();
            r.result = Some(match &res {
                Ok(n) => Ok(*n),
                Err(e) => Err(format!("{e}")),
            });
            let op = r.op;
            if res.is_ok() {
                st.ok_xorbs.insert(h);
            }
            st.return_order.push(op);
            st.log(format!("return put#{op} {}", if res.is_ok() { "ok" } else { "err" }));
        }
        res
    }

    async fn exists(&self, prefix: &str, hash: &MerkleHash) -> CResult<bool> {
        // the shipped session never asks; a version that does gets the same gates and faults as the other calls
        let dry = self.st.lock().unwrap().dry;
        if dry {
            return self.inner.exists(prefix, hash).await;
        }
        let (_idx, fault) = self.gate("exists").await;
        if fault.is_some() {
            let mut st = self.st.lock().unwrap();
            *st.faults_fired.entry("exists:fail".into()).or_insert(0) += 1;
            return Err(injected());
        }
        self.inner.exists(prefix, hash).await
    }
}

#[async_trait]
impl VerifRegistrationClient for SimStore {
    async fn upload_shard(
        &self,
        prefix: &str,
        hash: &MerkleHash,
        force_sync: bool,
        shard_data: &[u8],
        salt: &[u8; 32],
    ) -> CResult<bool> {
        {
            let mut st = self.st.lock().unwrap();
            if st.dry {
                st.dry_calls += 1;
                return Ok(true);
            }
        }
        let rec_idx;
        {
            let mut st = self.st.lock().unwrap();
            let seq = st.next_seq();
            st.in_flight += 1;
            st.max_in_flight = st.max_in_flight.max(st.in_flight);
            let op = st.shards.len() as u64;
            // C16.a: at the invoke of every upload_shard every referenced xorb has a completed Ok put
            match ref_shard_parse(shard_data) {
                Ok(sh) => {
                    for f in &sh.files {
                        for (si, s) in f.segments.iter().enumerate() {
                            if s.xorb == ZERO_H {
                                st.violations.push((
                                    "C15.e".into(),
                                    "zero-xorb-reference".into(),
                                    format!("shard #{op}: file {} segment {si} references the zero xorb hash", ref_hex(&f.hash)),
                                ));
                            } else if !st.ok_xorbs.contains(&s.xorb) {
                                st.violations.push((
                                    "C16.a".into(),
                                    "shard-before-xorb".into(),
                                    format!(
                                        "upload_shard #{op} invoked at event {seq} while xorb {} (file {} segment {si}) has no completed successful put",
                                        ref_hex(&s.xorb),
                                        ref_hex(&f.hash)
                                    ),
                                ));
                            }
                        }
                    }
                },
                Err(e) => st.violations.push(("C02.c".into(), "shard-unparsable".into(), format!("shard #{op}: {e}"))),
            }
            let session = st.session;
            st.log(format!("invoke upload_shard#{op} bytes={}", shard_data.len()));
            st.shards.push(ShardRecord {
                op,
                session,
                hash: h_of(hash),
                bytes: shard_data.to_vec(),
                invoke_seq: seq,
                return_seq: None,
                ok: None,
                faulted: false,
            });
            rec_idx = st.shards.len() - 1;
        }
        let (_idx, fault) = self.gate("upload_shard").await;
        let res = match fault {
            Some(FaultMode::FailBefore) => Err(injected()),
            Some(FaultMode::FailAfter) => {
                let _ = self.inner.upload_shard(prefix, hash, force_sync, shard_data, salt).await;
                Err(injected())
            },
            None => self.inner.upload_shard(prefix, hash, force_sync, shard_data, salt).await,
        };
        {
            let mut st = self.st.lock().unwrap();
            let seq = st.next_seq();
            st.in_flight -= 1;
            if let Some(f) = fault {
                *st.faults_fired.entry(format!("upload_shard:{f:?}")).or_insert(0) += 1;
                if st.in_flight > 0 {
                    st.fault_overlapped += 1;
                }
            }
            let r = &mut st.shards[rec_idx];
            r.return_seq = Some(seq);
            r.ok = Some(res.is_ok());
            r.faulted = fault.is_some();
            let op = r.op;
            st.return_order.push(1_000_000 + op);
            st.log(format!("return upload_shard#{op} {}", if res.is_ok() { "ok" } else { "err" }));
        }
        res
    }
}

#[async_trait]
impl FileReconstructor<CasClientError> for SimStore {
    async fn get_file_reconstruction_info(
        &self,
        file_hash: &MerkleHash,
    ) -> CResult<Option<(MDBFileInfo, Option<MerkleHash>)>> {
        self.inner.get_file_reconstruction_info(file_hash).await
    }
}

#[async_trait]
impl VerifShardDedupProber for SimStore {
    async fn query_for_global_dedup_shard(
        &self,
        prefix: &str,
        chunk_hash: &MerkleHash,
        salt: &[u8; 32],
    ) -> CResult<Option<PathBuf>> {
        {
            let mut st = self.st.lock().unwrap();
            st.next_seq();
            st.queries += 1;
        }
        let (_idx, fault) = self.gate("query").await;
        if fault.is_some() {
            let mut st = self.st.lock().unwrap();
            *st.faults_fired.entry("query:fail".into()).or_insert(0) += 1;
            return Err(injected());
        }
        let r = self.inner.query_for_global_dedup_shard(prefix, chunk_hash, salt).await?;
        // the real server hands the shard to the client, which places it in *its* shard cache
        match r {
            Some(p) => {
                let dir = {
                    let mut st = self.st.lock().unwrap();
                    st.query_hits += 1;
                    st.next_seq();
                    st.cache_dir.clone()
                };
                let dest = dir.join(p.file_name().unwrap());
                if dest != p {
                    std::fs::copy(&p, &dest)?;
                    let _ = std::fs::remove_file(&p);
                }
                Ok(Some(dest))
            },
            None => Ok(None),
        }
    }
}

impl ShardClientInterface for SimStore {}

#[async_trait]
impl ReconstructionClient for SimStore {
    async fn get_file(
        &self,
        hash: &MerkleHash,
        byte_range: Option<FileRange>,
        output_provider: &OutputProvider,
        progress_updater: Option<Arc<dyn ProgressUpdater>>,
    ) -> CResult<u64> {
        self.inner.get_file(hash, byte_range, output_provider, progress_updater).await
    }
}

impl Client for SimStore {}
