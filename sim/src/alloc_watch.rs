//! Counting global allocator: records the largest single allocation requested since the last `reset()`.
//! Used by C08.b ("never an unbounded allocation").

use std::alloc::{GlobalAlloc, Layout, System};
use std::sync::atomic::{AtomicUsize, Ordering};

pub struct Watch;

static MAX_SINGLE: AtomicUsize = AtomicUsize::new(0);

unsafe impl GlobalAlloc for Watch {
    unsafe fn alloc(&self, layout: Layout) -> *mut u8 {
        let s = layout.size();
        if s > MAX_SINGLE.load(Ordering::Relaxed) {
            MAX_SINGLE.fetch_max(s, Ordering::Relaxed);
        }
        System.alloc(layout)
    }
    unsafe fn dealloc(&self, ptr: *mut u8, layout: Layout) {
        System.dealloc(ptr, layout)
    }
    unsafe fn alloc_zeroed(&self, layout: Layout) -> *mut u8 {
        let s = layout.size();
        if s > MAX_SINGLE.load(Ordering::Relaxed) {
            MAX_SINGLE.fetch_max(s, Ordering::Relaxed);
        }
        System.alloc_zeroed(layout)
    }
    unsafe fn realloc(&self, ptr: *mut u8, layout: Layout, new_size: usize) -> *mut u8 {
        if new_size > MAX_SINGLE.load(Ordering::Relaxed) {
            MAX_SINGLE.fetch_max(new_size, Ordering::Relaxed);
        }
        System.realloc(ptr, layout, new_size)
    }
}

#[global_allocator]
static GLOBAL: Watch = Watch;

pub fn reset() {
    MAX_SINGLE.store(0, Ordering::Relaxed);
}

pub fn max() -> usize {
    MAX_SINGLE.load(Ordering::Relaxed)
}
