//! Engine interface, run reports, worker loop, parent orchestration, evidence, replay and minimisation.

use std::collections::{BTreeMap, BTreeSet, HashSet};
use std::io::{BufRead, BufReader, Write};
use std::path::{Path, PathBuf};
use std::process::{Command, Stdio};
use std::time::Instant;

use serde::{Deserialize, Serialize};
use serde_json::{json, Value};

#[derive(Clone, Copy, Debug, PartialEq, Eq, Serialize, Deserialize)]
#[serde(rename_all = "lowercase")]
pub enum Tier {
    Quick,
    Thorough,
}

impl Tier {
    pub fn parse(s: &str) -> Tier {
        match s {
            "thorough" => Tier::Thorough,
            _ => Tier::Quick,
        }
    }
    pub fn name(&self) -> &'static str {
        match self {
            Tier::Quick => "quick",
            Tier::Thorough => "thorough",
        }
    }
}

#[derive(Clone, Debug, Serialize, Deserialize, PartialEq, Eq)]
pub struct Violation {
    pub property: String,
    /// e.g. "C13.a"
    pub clause: String,
    /// stable identification of *what* fails (call site / input class); used to match known findings
    pub site: String,
    /// free text with the concrete numbers
    pub detail: String,
}

impl Violation {
    pub fn new(clause: &str, site: &str, detail: String) -> Self {
        let property = clause.split('.').next().unwrap_or(clause).to_string();
        Violation {
            property,
            clause: clause.to_string(),
            site: site.to_string(),
            detail,
        }
    }
    pub fn key(&self) -> (String, String) {
        (self.clause.clone(), self.site.clone())
    }
}

#[derive(Default, Debug)]
pub struct RunReport {
    pub violations: Vec<Violation>,
    pub nontrivial: bool,
    /// (workload shape, schedule signature) hash
    pub signature: u64,
    pub counters: BTreeMap<String, u64>,
    pub sim_ms: u64,
    pub sample: Option<Value>,
    /// an equivalent, more direct plan reproducing the reported violation (e.g. one explicit fault set)
    pub narrowed_plan: Option<Value>,
    /// the harness itself failed (panic located in xsim's own sources, e.g. resource exhaustion): not a verdict
    pub harness_fault: Option<String>,
}

impl RunReport {
    pub fn count(&mut self, name: &str, n: u64) {
        if n > 0 {
            *self.counters.entry(name.to_string()).or_insert(0) += n;
        }
    }
    pub fn violate(&mut self, clause: &str, site: &str, detail: String) {
        // keep the report small: one entry per (clause, site)
        if self.violations.iter().any(|v| v.clause == clause && v.site == site) {
            return;
        }
        self.violations.push(Violation::new(clause, site, detail));
    }
}

#[derive(Clone, Copy, Debug)]
pub struct Budget {
    pub runs: u64,
    pub chunk: u64,
    pub max_wall_s: u64,
}

pub trait Engine: Sync {
    fn name(&self) -> &'static str;
    fn properties(&self) -> &'static [&'static str];
    /// environment of the worker process that executes chunk `chunk` (per-process configuration)
    fn chunk_env(&self, _seed: u64, _chunk: u64, _focus: &str, _tier: Tier) -> Vec<(String, String)> {
        Vec::new()
    }
    fn budget(&self, focus: &str, tier: Tier) -> Budget;
    fn gen_plan(&self, seed: u64, run: u64, focus: &str, tier: Tier) -> Value;
    fn execute(&self, plan: &Value, focus: &str) -> RunReport;
    fn shrink(&self, _plan: &Value) -> Vec<Value> {
        Vec::new()
    }
    fn rule(&self, focus: &str) -> String;
    fn level(&self, _focus: &str) -> &'static str {
        "exploration"
    }
    fn real_vs_stub(&self) -> Value;
    fn assumptions(&self, _focus: &str) -> Vec<String> {
        Vec::new()
    }
    /// called once per worker process before the first run
    fn worker_init(&self) {}
}

// ---------------------------------------------------------------------------------------------
// panic capture

thread_local! {
    static LAST_PANIC: std::cell::RefCell<Option<String>> = const { std::cell::RefCell::new(None) };
}

pub fn install_quiet_panic_hook() {
    let verbose = std::env::var("XSIM_VERBOSE").is_ok();
    std::panic::set_hook(Box::new(move |info| {
        let loc = info
            .location()
            .map(|l| format!("{}:{}", l.file(), l.line()))
            .unwrap_or_else(|| "?".into());
        let msg = if let Some(s) = info.payload().downcast_ref::<&str>() {
            s.to_string()
        } else if let Some(s) = info.payload().downcast_ref::<String>() {
            s.clone()
        } else {
            "<non-string panic>".to_string()
        };
        if verbose {
            eprintln!("[panic] {loc}: {msg}");
        }
        LAST_PANIC.with(|c| *c.borrow_mut() = Some(format!("{loc}: {msg}")));
    }));
}

pub fn take_last_panic() -> Option<String> {
    LAST_PANIC.with(|c| c.borrow_mut().take())
}

/// Location part ("file:line") of a recorded panic string, with /repo-relative path where possible.
pub fn panic_site(p: &str) -> String {
    let loc = p.split(": ").next().unwrap_or("?");
    let loc = loc.rsplit("/repo/").next().unwrap_or(loc);
    // strip line number: sites must survive unrelated edits as far as possible
    loc.rsplit_once(':').map(|(f, _)| f.to_string()).unwrap_or_else(|| loc.to_string())
}

pub fn run_caught(engine: &dyn Engine, plan: &Value, focus: &str) -> RunReport {
    let _ = take_last_panic();
    let r = std::panic::catch_unwind(std::panic::AssertUnwindSafe(|| engine.execute(plan, focus)));
    match r {
        Ok(rep) => rep,
        Err(_) => {
            let p = take_last_panic().unwrap_or_else(|| "?".into());
            let mut rep = RunReport::default();
            if p.starts_with("src/") {
                // a panic in the simulator's own code is a harness fault, never a verdict about /repo
                rep.harness_fault = Some(p);
                return rep;
            }
            rep.violations.push(Violation {
                property: focus.to_string(),
                clause: format!("{focus}.panic"),
                site: panic_site(&p),
                detail: format!("panic escaped the run: {p}"),
            });
            rep
        },
    }
}

// ---------------------------------------------------------------------------------------------
// known findings

#[derive(Clone, Debug, Deserialize, Serialize)]
pub struct KnownFinding {
    pub property: String,
    pub clause: String,
    pub site: String,
    pub what: String,
}

#[derive(Clone, Debug, Default, Deserialize, Serialize)]
pub struct KnownFindings {
    #[serde(default)]
    pub findings: Vec<KnownFinding>,
    #[serde(default)]
    pub fixed: Vec<String>,
}

impl KnownFindings {
    pub fn load(path: &Path) -> Self {
        match std::fs::read_to_string(path) {
            Ok(s) => serde_json::from_str(&s).unwrap_or_else(|e| {
                eprintln!("xsim: cannot parse {path:?}: {e}");
                std::process::exit(2)
            }),
            Err(_) => Default::default(),
        }
    }
    pub fn matches(&self, v: &Violation) -> Option<&KnownFinding> {
        self.findings
            .iter()
            .find(|k| k.property == v.property && k.clause == v.clause && k.site == v.site)
    }
}

// ---------------------------------------------------------------------------------------------
// minimisation

pub fn minimise(engine: &dyn Engine, plan: &Value, focus: &str, target: &Violation, wall_s: f64) -> (Value, u32) {
    let t0 = Instant::now();
    let mut cur = plan.clone();
    let mut steps = 0u32;
    let mut executions = 0u32;
    'outer: loop {
        if t0.elapsed().as_secs_f64() > wall_s {
            break;
        }
        for cand in engine.shrink(&cur) {
            executions += 1;
            if t0.elapsed().as_secs_f64() > wall_s || executions > 400 {
                break 'outer;
            }
            let rep = run_caught(engine, &cand, focus);
            if rep.harness_fault.is_some() {
                break 'outer;
            }
            if rep.violations.iter().any(|v| v.clause == target.clause && v.site == target.site) {
                cur = cand;
                steps += 1;
                continue 'outer;
            }
        }
        break;
    }
    (cur, steps)
}

// ---------------------------------------------------------------------------------------------
// worker (child process)

#[derive(Serialize, Deserialize, Debug, Default)]
pub struct ChunkSummary {
    pub chunk: u64,
    pub runs: u64,
    pub nontrivial_sigs: Vec<u64>,
    pub counters: BTreeMap<String, u64>,
    pub sim_ms: u64,
    pub samples: Vec<Value>,
    pub other_property_violations: BTreeMap<String, u64>,
    pub wall_s: f64,
    #[serde(default)]
    pub harness_faults: Vec<String>,
}

#[derive(Serialize, Deserialize, Debug)]
pub struct FoundViolation {
    pub violation: Violation,
    pub run: u64,
    pub chunk: u64,
    pub plan: Value,
    pub minimised_plan: Option<Value>,
    pub minimise_steps: u32,
    pub env: BTreeMap<String, String>,
}

pub struct WorkerArgs {
    pub focus: String,
    pub tier: Tier,
    pub seed: u64,
    pub chunk: u64,
    pub first_run: u64,
    pub n_runs: u64,
    pub known: KnownFindings,
    pub deadline_s: f64,
    /// heartbeat file: the index of the run being executed (lets the parent name the run of a hang)
    pub heartbeat: Option<PathBuf>,
}

pub fn worker_main(engine: &dyn Engine, a: WorkerArgs) {
    install_quiet_panic_hook();
    engine.worker_init();
    let t0 = Instant::now();
    let out = std::io::stdout();
    let mut summary = ChunkSummary {
        chunk: a.chunk,
        ..Default::default()
    };
    let mut sigs: HashSet<u64> = HashSet::new();
    let mut seen: BTreeSet<(String, String)> = BTreeSet::new();
    let env: BTreeMap<String, String> = std::env::vars().filter(|(k, _)| k.starts_with("HF_XET_")).collect();
    let mut minimised = 0;
    for run in a.first_run..a.first_run + a.n_runs {
        if t0.elapsed().as_secs_f64() > a.deadline_s {
            break;
        }
        if let Some(hb) = &a.heartbeat {
            let _ = std::fs::write(hb, run.to_string());
        }
        let plan = engine.gen_plan(a.seed, run, &a.focus, a.tier);
        let rep = run_caught(engine, &plan, &a.focus);
        if let Some(h) = &rep.harness_fault {
            summary.harness_faults.push(format!("run {run}: {h}"));
            break;
        }
        summary.runs += 1;
        summary.sim_ms += rep.sim_ms;
        for (k, v) in &rep.counters {
            *summary.counters.entry(k.clone()).or_insert(0) += v;
        }
        if rep.nontrivial {
            sigs.insert(rep.signature);
        }
        if summary.samples.len() < 2 {
            if let Some(s) = rep.sample.clone() {
                if rep.nontrivial || summary.samples.is_empty() {
                    summary.samples.push(json!({"run": run, "case": s}));
                }
            }
        }
        for v in rep.violations.iter() {
            if v.property != a.focus {
                *summary.other_property_violations.entry(v.clause.clone()).or_insert(0) += 1;
                continue;
            }
            if !seen.insert(v.key()) {
                *summary.counters.entry(format!("repeat_violation:{}", v.clause)).or_insert(0) += 1;
                continue;
            }
            let known = a.known.matches(v).is_some();
            let (min_plan, steps) = if !known && minimised < 2 {
                minimised += 1;
                let mut start = plan.clone();
                if let Some(np) = &rep.narrowed_plan {
                    let r2 = run_caught(engine, np, &a.focus);
                    if r2.violations.iter().any(|x| x.clause == v.clause && x.site == v.site) {
                        start = np.clone();
                    }
                }
                let (p, s) = minimise(engine, &start, &a.focus, v, 30.0);
                (Some(p), s)
            } else {
                (None, 0)
            };
            let fv = FoundViolation {
                violation: v.clone(),
                run,
                chunk: a.chunk,
                plan: plan.clone(),
                minimised_plan: min_plan,
                minimise_steps: steps,
                env: env.clone(),
            };
            let mut lock = out.lock();
            let _ = writeln!(lock, "V {}", serde_json::to_string(&fv).unwrap());
        }
    }
    summary.nontrivial_sigs = sigs.into_iter().collect();
    summary.wall_s = t0.elapsed().as_secs_f64();
    let mut lock = out.lock();
    let _ = writeln!(lock, "S {}", serde_json::to_string(&summary).unwrap());
    let _ = lock.flush();
}

// ---------------------------------------------------------------------------------------------
// parent

pub struct CheckArgs {
    pub focus: String,
    pub tier: Tier,
    pub seed: u64,
    pub jobs: usize,
    pub verif_dir: PathBuf,
    pub runs_override: Option<u64>,
    pub wall_override: Option<u64>,
}

pub fn verif_dir() -> PathBuf {
    std::env::var("XSIM_VERIF_DIR").map(PathBuf::from).unwrap_or_else(|_| PathBuf::from("/verif"))
}

pub fn check_main(engine: &dyn Engine, a: CheckArgs) -> i32 {
    let t0 = Instant::now();
    let mut budget = engine.budget(&a.focus, a.tier);
    if let Some(r) = a.runs_override {
        budget.runs = r;
    }
    if let Some(w) = a.wall_override {
        budget.max_wall_s = w;
    }
    let known_path = a.verif_dir.join("known_findings.json");
    let known = KnownFindings::load(&known_path);
    let exe = std::env::current_exe().expect("current_exe");
    let n_chunks = budget.runs.div_ceil(budget.chunk);
    println!(
        "xsim: property={} engine={} tier={} seed={} runs={} chunk={} jobs={}",
        a.focus,
        engine.name(),
        a.tier.name(),
        a.seed,
        budget.runs,
        budget.chunk,
        a.jobs
    );

    struct Child {
        chunk: u64,
        proc: std::process::Child,
        reader: std::thread::JoinHandle<Vec<String>>,
        hb: PathBuf,
        hb_last: String,
        hb_changed: Instant,
        env: Vec<(String, String)>,
    }
    let hang_s: f64 = std::env::var("XSIM_HANG_S").ok().and_then(|s| s.parse().ok()).unwrap_or(150.0);
    let mut last_hb_poll = Instant::now();
    let mut next_chunk = 0u64;
    let mut live: Vec<Child> = Vec::new();
    let mut summaries: Vec<ChunkSummary> = Vec::new();
    let mut found: Vec<FoundViolation> = Vec::new();
    let mut harness_errors: Vec<String> = Vec::new();
    let mut stop_launching = false;

    loop {
        while !stop_launching && live.len() < a.jobs && next_chunk < n_chunks {
            let elapsed = t0.elapsed().as_secs_f64();
            if elapsed > budget.max_wall_s as f64 {
                stop_launching = true;
                break;
            }
            let first = next_chunk * budget.chunk;
            let n = budget.chunk.min(budget.runs - first);
            let mut cmd = Command::new(&exe);
            cmd.arg("worker")
                .arg(&a.focus)
                .arg("--tier")
                .arg(a.tier.name())
                .arg("--seed")
                .arg(a.seed.to_string())
                .arg("--chunk")
                .arg(next_chunk.to_string())
                .arg("--first")
                .arg(first.to_string())
                .arg("--n")
                .arg(n.to_string())
                .arg("--deadline")
                .arg(format!("{}", (budget.max_wall_s as f64 - elapsed).max(5.0)))
                .arg("--known")
                .arg(&known_path);
            let hb = PathBuf::from(format!("/dev/shm/xsim-hb-{}-{}", std::process::id(), next_chunk));
            cmd.arg("--hb")
                .arg(&hb)
                .stdout(Stdio::piped())
                .stderr(Stdio::inherit());
            // scrub inherited HF_XET_ configuration, then apply the chunk's
            for (k, _) in std::env::vars() {
                if k.starts_with("HF_XET_") {
                    cmd.env_remove(k);
                }
            }
            let cenv = engine.chunk_env(a.seed, next_chunk, &a.focus, a.tier);
            for (k, v) in &cenv {
                cmd.env(k, v);
            }
            let mut proc = cmd.spawn().expect("spawn worker");
            let stdout = proc.stdout.take().unwrap();
            let reader = std::thread::spawn(move || {
                let mut lines = Vec::new();
                for l in BufReader::new(stdout).lines().map_while(|l| l.ok()) {
                    lines.push(l);
                }
                lines
            });
            live.push(Child {
                chunk: next_chunk,
                proc,
                reader,
                hb,
                hb_last: String::new(),
                hb_changed: Instant::now(),
                env: cenv,
            });
            next_chunk += 1;
        }
        if live.is_empty() {
            break;
        }
        // hang detection: a run that does not finish within hang_s is killed and reported with its plan
        if last_hb_poll.elapsed().as_secs_f64() > 1.0 {
            last_hb_poll = Instant::now();
            for c in live.iter_mut() {
                let cur = std::fs::read_to_string(&c.hb).unwrap_or_default();
                if cur != c.hb_last {
                    c.hb_last = cur;
                    c.hb_changed = Instant::now();
                } else if c.hb_changed.elapsed().as_secs_f64() > hang_s && !c.hb_last.is_empty() {
                    let _ = c.proc.kill();
                    let run: u64 = c.hb_last.trim().parse().unwrap_or(0);
                    // obtain the plan of that run from a fresh process with the chunk's configuration
                    let mut pc = Command::new(&exe);
                    pc.arg("plan").arg(&a.focus).arg("--seed").arg(a.seed.to_string()).arg("--run").arg(run.to_string()).arg("--tier").arg(a.tier.name());
                    for (k, v) in &c.env {
                        pc.env(k, v);
                    }
                    let plan: Value = pc.output().ok().and_then(|o| serde_json::from_slice(&o.stdout).ok()).unwrap_or(Value::Null);
                    found.push(FoundViolation {
                        violation: Violation {
                            property: a.focus.clone(),
                            clause: format!("{}.hang", a.focus),
                            site: "run-never-finished".into(),
                            detail: format!("run {run} did not finish within {hang_s} s of wall time (simulated time cannot explain this: the code under test loops or blocks)"),
                        },
                        run,
                        chunk: c.chunk,
                        plan,
                        minimised_plan: None,
                        minimise_steps: 0,
                        env: c.env.iter().cloned().collect(),
                    });
                    stop_launching = true;
                    c.hb_last.clear();
                }
            }
        }
        // wait for any child
        let mut i = 0;
        let mut progressed = false;
        while i < live.len() {
            match live[i].proc.try_wait() {
                Ok(Some(status)) => {
                    let c = live.swap_remove(i);
                    let killed_for_hang = found.iter().any(|f| f.chunk == c.chunk && f.violation.site == "run-never-finished");
                    let lines = c.reader.join().unwrap_or_default();
                    let mut got_summary = false;
                    for l in lines {
                        if let Some(rest) = l.strip_prefix("S ") {
                            match serde_json::from_str::<ChunkSummary>(rest) {
                                Ok(s) => {
                                    summaries.push(s);
                                    got_summary = true;
                                },
                                Err(e) => harness_errors.push(format!("chunk {}: bad summary: {e}", c.chunk)),
                            }
                        } else if let Some(rest) = l.strip_prefix("V ") {
                            match serde_json::from_str::<FoundViolation>(rest) {
                                Ok(v) => {
                                    if known.matches(&v.violation).is_none() {
                                        stop_launching = true;
                                    }
                                    found.push(v);
                                },
                                Err(e) => harness_errors.push(format!("chunk {}: bad violation line: {e}", c.chunk)),
                            }
                        }
                    }
                    let hb_now = std::fs::read_to_string(&c.hb).unwrap_or_default();
                    if (!status.success() || !got_summary) && !killed_for_hang && !hb_now.trim().is_empty() && status.code().is_none() {
                        // the worker was killed by a signal (abort, segfault, OOM) while executing a known run: that run
                        // made the process die, which no property allows
                        let run: u64 = hb_now.trim().parse().unwrap_or(0);
                        let mut pc = Command::new(&exe);
                        pc.arg("plan").arg(&a.focus).arg("--seed").arg(a.seed.to_string()).arg("--run").arg(run.to_string()).arg("--tier").arg(a.tier.name());
                        for (k, v) in &c.env {
                            pc.env(k, v);
                        }
                        let plan: Value = pc.output().ok().and_then(|o| serde_json::from_slice(&o.stdout).ok()).unwrap_or(Value::Null);
                        found.push(FoundViolation {
                            violation: Violation {
                                property: a.focus.clone(),
                                clause: format!("{}.abort", a.focus),
                                site: "worker-process-died".into(),
                                detail: format!("the worker process executing run {run} was terminated abnormally ({status}): abort, stack overflow or out-of-memory inside the run"),
                            },
                            run,
                            chunk: c.chunk,
                            plan,
                            minimised_plan: None,
                            minimise_steps: 0,
                            env: c.env.iter().cloned().collect(),
                        });
                        stop_launching = true;
                    } else if (!status.success() || !got_summary) && !killed_for_hang {
                        harness_errors.push(format!(
                            "worker for chunk {} ended abnormally ({status}); runs {}..{}",
                            c.chunk,
                            c.chunk * budget.chunk,
                            (c.chunk + 1) * budget.chunk
                        ));
                    }
                    let _ = std::fs::remove_file(&c.hb);
                    progressed = true;
                },
                Ok(None) => i += 1,
                Err(e) => {
                    harness_errors.push(format!("wait: {e}"));
                    i += 1;
                },
            }
        }
        if !progressed {
            std::thread::sleep(std::time::Duration::from_millis(5));
        }
    }

    // ---- aggregate
    let wall = t0.elapsed().as_secs_f64();
    let mut evaluations = 0u64;
    let mut sigs: HashSet<u64> = HashSet::new();
    let mut counters: BTreeMap<String, u64> = BTreeMap::new();
    let mut sim_ms = 0u64;
    let mut samples: Vec<Value> = Vec::new();
    let mut other: BTreeMap<String, u64> = BTreeMap::new();
    summaries.sort_by_key(|s| s.chunk);
    for s in &summaries {
        for h in &s.harness_faults {
            harness_errors.push(format!("chunk {}: harness fault: {h}", s.chunk));
        }
        evaluations += s.runs;
        sim_ms += s.sim_ms;
        for x in &s.nontrivial_sigs {
            sigs.insert(*x);
        }
        for (k, v) in &s.counters {
            *counters.entry(k.clone()).or_insert(0) += v;
        }
        for (k, v) in &s.other_property_violations {
            *other.entry(k.clone()).or_insert(0) += v;
        }
        if samples.len() < 4 {
            samples.extend(s.samples.iter().take(1).cloned());
        }
    }

    // ---- violations
    found.sort_by_key(|f| f.run);
    let mut unknown = 0;
    let mut printed_known: BTreeSet<(String, String)> = BTreeSet::new();
    let mut printed_unknown: BTreeSet<(String, String)> = BTreeSet::new();
    let replay_dir = a.verif_dir.join("replays");
    let _ = std::fs::create_dir_all(&replay_dir);
    let mut known_hits: BTreeMap<String, u64> = BTreeMap::new();
    for f in &found {
        if let Some(k) = known.matches(&f.violation) {
            *known_hits.entry(format!("{}:{}", k.clause, k.site)).or_insert(0) += 1;
            if printed_known.insert(f.violation.key()) {
                println!("KNOWN-FINDING: property={} clause={} site={} {}", k.property, k.clause, k.site, k.what);
            }
            continue;
        }
        unknown += 1;
        if !printed_unknown.insert(f.violation.key()) {
            continue;
        }
        let path = replay_dir.join(format!(
            "{}-{}-seed{}-run{}.json",
            a.focus,
            f.violation.clause.replace('.', "_"),
            a.seed,
            f.run
        ));
        let replay = json!({
            "engine": engine.name(),
            "focus": a.focus,
            "tier": a.tier.name(),
            "seed": a.seed,
            "run": f.run,
            "env": f.env,
            "expected": f.violation,
            "plan": f.minimised_plan.clone().unwrap_or_else(|| f.plan.clone()),
            "minimise_steps": f.minimise_steps,
            "original_plan": f.plan,
        });
        std::fs::write(&path, serde_json::to_string_pretty(&replay).unwrap()).expect("write replay");
        println!(
            "VIOLATION property={} replay={} clause={} site={} detail={}",
            a.focus,
            path.display(),
            f.violation.clause,
            f.violation.site,
            f.violation.detail
        );
    }

    // ---- evidence
    let level = engine.level(&a.focus);
    let ev = json!({
        "property_id": a.focus,
        "tier": a.tier.name(),
        "seed": a.seed,
        "level": level,
        "coverage": {
            "evaluations": evaluations,
            "distinct_nontrivial": sigs.len(),
            "rule": engine.rule(&a.focus),
            "samples": samples,
            "engine": engine.name(),
            "runs_per_hour": if wall > 0.0 { (evaluations as f64 / wall * 3600.0) as u64 } else { 0 },
            "simulated_seconds": sim_ms as f64 / 1000.0,
            "counters": counters,
            "real_vs_stub": engine.real_vs_stub(),
            "known_finding_hits": known_hits,
            "observations_on_other_properties": other,
            "chunks": summaries.len(),
            "seeds": format!("base seed {} ; run i of chunk k derives its streams from (seed, i); per-process configuration from (seed, k)", a.seed),
            "harness_errors": harness_errors,
        },
        "assumptions": engine.assumptions(&a.focus),
        "wall_s": wall,
        "violations": unknown,
    });
    let ev_dir = a.verif_dir.join("evidence");
    let _ = std::fs::create_dir_all(&ev_dir);
    let ev_path = ev_dir.join(format!("{}.json", a.focus));
    std::fs::write(&ev_path, serde_json::to_string_pretty(&ev).unwrap()).expect("write evidence");
    println!(
        "xsim: {} runs, {} distinct non-trivial, {} unlisted violations, {:.1}s; evidence {}",
        evaluations,
        sigs.len(),
        unknown,
        wall,
        ev_path.display()
    );
    if unknown > 0 {
        return 1;
    }
    if !harness_errors.is_empty() {
        for e in &harness_errors {
            eprintln!("xsim: HARNESS ERROR: {e}");
        }
        return 2;
    }
    if evaluations == 0 {
        eprintln!("xsim: HARNESS ERROR: nothing was executed");
        return 2;
    }
    0
}

// ---------------------------------------------------------------------------------------------
// replay

/// Must be called before anything touches /repo's lazily-initialised configuration.
pub fn replay_prepare_env(path: &Path) -> Value {
    let s = std::fs::read_to_string(path).unwrap_or_else(|e| {
        eprintln!("xsim: cannot read {path:?}: {e}");
        std::process::exit(2)
    });
    let v: Value = serde_json::from_str(&s).unwrap_or_else(|e| {
        eprintln!("xsim: cannot parse {path:?}: {e}");
        std::process::exit(2)
    });
    let keys: Vec<String> = std::env::vars().map(|(k, _)| k).filter(|k| k.starts_with("HF_XET_")).collect();
    for k in keys {
        std::env::remove_var(k);
    }
    if let Some(env) = v.get("env").and_then(|e| e.as_object()) {
        for (k, val) in env {
            if let Some(s) = val.as_str() {
                std::env::set_var(k, s);
            }
        }
    }
    v
}

pub fn replay_main(engine: &dyn Engine, file: &Value, path: &Path) -> i32 {
    install_quiet_panic_hook();
    engine.worker_init();
    let focus = file["focus"].as_str().unwrap_or("").to_string();
    let plan = &file["plan"];
    let expected: Option<Violation> = serde_json::from_value(file["expected"].clone()).ok();
    {
        // a run that never finishes is itself the reproduction of a `.hang` violation
        let expect_hang = expected.as_ref().map(|e| e.clause.ends_with(".hang")).unwrap_or(false);
        let (f, p) = (focus.clone(), path.to_path_buf());
        let limit: u64 = std::env::var("XSIM_HANG_S").ok().and_then(|s| s.parse().ok()).unwrap_or(if expect_hang { 60 } else { 600 });
        std::thread::spawn(move || {
            std::thread::sleep(std::time::Duration::from_secs(limit));
            println!("replay: the run did not finish within {limit} s");
            println!("VIOLATION property={} replay={} ({})", f, p.display(), if expect_hang { "hang reproduced" } else { "hang" });
            std::process::exit(1);
        });
    }
    let rep = run_caught(engine, plan, &focus);
    for v in &rep.violations {
        println!("replay: violation clause={} site={} detail={}", v.clause, v.site, v.detail);
    }
    let hit = match &expected {
        Some(e) => rep.violations.iter().any(|v| v.clause == e.clause && v.site == e.site),
        None => rep.violations.iter().any(|v| v.property == focus),
    };
    if hit {
        println!("VIOLATION property={} replay={} (reproduced)", focus, path.display());
        1
    } else {
        println!("replay: expected violation NOT reproduced");
        0
    }
}
