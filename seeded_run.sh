#!/bin/bash
# Runs checks against a seeded property-breaking change and reverts it.
# usage: ./seeded_run.sh seeded/<id>-<n> [check ids...]   (default: the property named in meta.json)
set -u
HERE="$(cd "$(dirname "${BASH_SOURCE[0]}")" && pwd)"
D="$(cd "$1" && pwd)"; shift
[ -z "$(git -C /repo status --porcelain)" ] || { echo "seeded_run: /repo has uncommitted changes, refusing"; exit 2; }
IDS="$*"
[ -n "$IDS" ] || IDS="$(python3 -c "import json;print(json.load(open('$D/meta.json'))['property'])")"
git -C /repo apply "$D/patch.diff" || { echo "seeded_run: patch does not apply"; exit 2; }
trap 'rm -rf "$XSIM_OUT_DIR"; git -C /repo checkout -- . ; git -C /repo clean -fdq -e target >/dev/null 2>&1' EXIT
export XSIM_OUT_DIR="/dev/shm/xsim-seeded-out-$$"
mkdir -p "$XSIM_OUT_DIR" && cp "$HERE/known_findings.json" "$XSIM_OUT_DIR/"
rc=0
for id in $IDS; do
  out="$("$HERE/check" "$id" quick 2>&1)"; code=$?
  echo "== $id exit=$code"
  echo "$out" | grep -E "^(VIOLATION|KNOWN-FINDING|xsim: [0-9]+ runs|xsim: HARNESS)" | cut -c1-330 | head -6
  [ $code -eq 1 ] && rc=1
done
exit $rc
