#!/bin/bash
# Determinism proof: every (seed, run) is executed twice, in different processes and with different partitions of the
# run range over processes; the per-run digests (signature = schedule/return-order hash, every counter, violations)
# must be byte-identical.   usage: ./determinism.sh [runs-per-property] [seed]
set -u
HERE="$(cd "$(dirname "${BASH_SOURCE[0]}")" && pwd)"
N="${1:-1000}"
SEED="${2:-7}"
"$HERE/check" --build || exit 2
X="$HERE/sim/target/release/xsim"
T="$(mktemp -d /dev/shm/xsim-det-XXXXXX)"
fail=0
for P in C01 C04 C05 C07 C08 C09 C10 C11 C12 C13 C14 C15 C16 C17 C18 C19 C20; do
  n=$N
  case $P in C16) n=$((N/25+4));; C19) n=$((N/4+4));; C01|C11|C14|C15) n=$((N/2));; esac
  # pass A: 16 processes, contiguous slices; pass B: 5 processes, different slice sizes, under another HASHSEED-like env
  sliceA=$(( (n + 15) / 16 )); sliceB=$(( (n + 4) / 5 ))
  for i in $(seq 0 15); do ( "$X" digest $P --seed $SEED --first $((i*sliceA)) --n $sliceA > "$T/$P.A.$i" 2>/dev/null ) & done; wait
  for i in $(seq 0 4); do ( "$X" digest $P --seed $SEED --first $((i*sliceB)) --n $sliceB > "$T/$P.B.$i" 2>/dev/null ) & done; wait
  cat $(for i in $(seq 0 15); do echo "$T/$P.A.$i"; done) | sort -n | awk -v m=$n '$1<m' > "$T/$P.A"
  cat $(for i in $(seq 0 4); do echo "$T/$P.B.$i"; done) | sort -n | awk -v m=$n '$1<m' > "$T/$P.B"
  if cmp -s "$T/$P.A" "$T/$P.B"; then
    echo "$P: $(wc -l < "$T/$P.A") runs x 2 executions identical"
  else
    echo "$P: DIVERGENCE"; diff "$T/$P.A" "$T/$P.B" | head -6; fail=1
  fi
done
rm -rf "$T"
exit $fail
