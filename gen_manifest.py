#!/usr/bin/env python3
"""Writes /verif/MANIFEST.json from the table below (kept as a script so the manifest stays consistent)."""
import json, subprocess, os

HERE = os.path.dirname(os.path.abspath(__file__))

# id -> (engine, level, technique, level text, level note, design ref)
CHECKS = {
    "C04": ("stream/chunker", "exploration",
            "deterministic stream-delivery simulation (seeded fragmentation of the byte stream into chunker calls) against an independent reference chunker",
            "Seeded search over (content, target size, call partition, API mode): the real Chunker is driven through next/next_block/finish with simulated delivery fragmentation and compared boundary-by-boundary and hash-by-hash with an independent gear-hash reference; a clean batch is evidence, not proof. Only the delivery dimension is simulation proper; contents are seeded generation (said plainly in DESIGN §7 C04).",
            "Trusted: gearhash's table, blake3, the reference chunker in sim/src/refmodel.rs.", "§7 C04"),
}

NOT_APPLICABLE = {
    "C06": "Every clause is a pure function of its input (hash identities, text-form round trips, avalanche); there is no schedule, clock, fault or history for a simulator to control, so deterministic simulation does not apply (DESIGN §7 C06). The independent hash implementations are exercised as oracles of C02/C03/C08.",
}

PENDING_REASON = "check not built yet in this tree (design in DESIGN.md §7); not claimed until its check exists"

def main():
    props = [json.loads(l)["id"] for l in open(os.path.join(HERE, "properties.jsonl"))]
    hooks = subprocess.run(["git", "-C", "/repo", "log", "--format=%H %s", "--reverse"], capture_output=True, text=True).stdout.splitlines()
    hook_commits = [l.split()[0] for l in hooks if "verif hook" in l]
    checks = []
    for pid in props:
        if pid not in CHECKS:
            continue
        engine, level, technique, text, note, ref = CHECKS[pid]
        checks.append({
            "property_id": pid,
            "quick_cmd": f"./check {pid} quick",
            "thorough_cmd": f"./check {pid} thorough",
            "evidence_file": f"/verif/evidence/{pid}.json",
            "replay_cmd_template": f"./check {pid} --replay {{path}}",
            "engine": engine,
            "level_claimed": {"category": level, "text": text, "design_ref": ref},
            "level_note": note,
            "technique": technique,
        })
    na = []
    for pid in props:
        if pid in CHECKS:
            continue
        na.append({"property_id": pid, "reason": NOT_APPLICABLE.get(pid, PENDING_REASON)})
    engines = {}
    for pid, v in CHECKS.items():
        engines.setdefault(v[0], []).append(pid)
    manifest = {
        "version": 1,
        "setup_cmd": "./check --build",
        "hooks": {
            "guard": "xet_verif",
            "enable": "RUSTFLAGS=\"--cfg xet_verif\" (set by ./check; /verif/sim depends on /repo's crates by path through the symlink sim/repo)",
            "baseline_off_cmd": "cd /repo && cargo test --workspace --no-fail-fast --offline",
            "source_commits": hook_commits,
            "add_only": True,
        },
        "engines": [{"name": n, "path": "sim/src/engines", "serves_properties": sorted(p), "kind_free_text": "deterministic simulation engine inside the xsim binary"} for n, p in sorted(engines.items())],
        "checks": checks,
        "not_applicable": na,
        "notes": "All checks: ./check <ID> quick|thorough rebuilds /verif/sim (xsim) offline against /repo's working tree with --cfg xet_verif, then runs seeded simulated executions in worker processes. Exit 0 clean, 1 with VIOLATION line, 2 harness/build error. VERIF_SEED overrides the default seed. Known findings: /verif/known_findings.json.",
    }
    json.dump(manifest, open(os.path.join(HERE, "MANIFEST.json"), "w"), indent=1)
    print("wrote MANIFEST.json:", len(checks), "checks,", len(na), "not claimed")

if __name__ == "__main__":
    main()
