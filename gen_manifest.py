#!/usr/bin/env python3
"""Writes /verif/MANIFEST.json from the table below (kept as a script so the manifest stays consistent)."""
import json, subprocess, os

HERE = os.path.dirname(os.path.abspath(__file__))

# id -> (engine, level, technique, level text, level note, design ref)
CHECKS = {
    "C04": ("stream/chunker", "exploration",
            "deterministic stream-delivery simulation (seeded fragmentation of the byte stream into chunker calls) against an independent reference chunker",
            "Seeded search over (content, target size, call partition, API mode): the real Chunker is driven through next/next_block/finish with simulated delivery fragmentation and compared boundary-by-boundary and hash-by-hash with an independent gear-hash reference; a clean batch is evidence, not proof. Only the delivery dimension is simulation proper; contents are seeded generation (said plainly in DESIGN §7 C04).",
            "Trusted: gearhash's table, blake3, the reference chunker in sim/src/refmodel.rs.", "§7 C04"),
}

SESSION_NOTE = "Trusted: the independent reference chunker/hashes/shard+xorb parsers (sim/src/refmodel.rs), tokio's runtime and paused clock, the LocalClient store as the model of a server. Size-limit configuration is per worker process (env), sampled."
def session(text, technique, level="exploration", ref="§7"):
    return ("session", level, technique, text, SESSION_NOTE, ref)
CHECKS.update({
    "C01": session("Whole-system deterministic simulation: 1-4 upload sessions x concurrently cleaned files run the real pipeline (chunker, deduper, aggregator, session, shard manager, LocalClient) on a single-threaded tokio runtime with paused clock; every store call and feed call is a gate with seeded latency, so interleavings and completion orders are decided by the seed. Every file of every successful session is downloaded (whole and by ranges) after its session and again at the end and compared with the bytes fed. Seeded search; evidence, not proof.",
                   "deterministic simulation of the upload/download pipeline with seeded scheduling of store calls and feeders; download oracle", ref="§7 C01"),
    "C02": session("Same simulated runs; after each successful session an independent validator (own xorb and shard parsers, own hash implementations) checks every stored xorb and every file record captured at upload_shard, and both /repo validators are run as the 'server'.",
                   "deterministic simulation + independent re-validation of everything handed to the simulated store", ref="§7 C02"),
    "C03": session("Same simulated runs with planted twins (same bytes under different feed partitions, neighbours, sessions, dedup states, salts): pointer (hash,size) must equal the reference hash of the reference chunking and agree between twins.",
                   "deterministic simulation with twin contents across schedules, sessions and salts; reference file hash oracle", ref="§7 C03"),
    "C11": session("Multi-session histories on one store and shard cache: later sessions re-upload, extend and recombine content of earlier finalized sessions; oracle on the store call log and the captured shards (every stored xorb listed in the session's shards; no chunk stored by an earlier finalized session is uploaded again; unchanged re-upload has new_bytes = 0); the cache's chunk-index cap is sampled down to 64..2000 with a sound exemption once the cap may legitimately be reached. One session in four runs as another process sharing the shard-cache directory (its shards appear there without in-process registration). One run in five drives one ShardFileManager from 2-4 concurrent callers under the cooperative thread scheduler (switching inside the shard write-out, between operations and on held locks): every record whose add returned Ok must be in a shard after the final flush.",
                   "deterministic simulation of session histories; conservation oracle over the simulated store's call log", ref="§7 C11"),
    "C14": session("Same simulated runs biased to fragmentation-heavy dedup patterns under small estimator windows and to out-of-order upload completion; conservation laws on per-file and session metrics against the bytes fed and the values the simulated store actually returned.",
                   "deterministic simulation with seeded completion order of background uploads; conservation oracle on metrics vs. store call log", ref="§7 C14"),
    "C15": session("Same simulated runs under sampled limit configurations (1..8192 chunks, 128 KiB..64 MiB per xorb) with many small files finishing concurrently; every put is inspected at the simulated store, every stored xorb is validated, every captured shard is checked for unresolved xorb references.",
                   "deterministic simulation; invariant observer on every simulated store call", ref="§7 C15"),
    "C16": session("Fault enumeration over simulated histories: each sampled history is first run fault-free, then re-run once per store call (put, upload_shard) with that call failing before any effect and once with its reply lost, plus random multi-fault sets, each under re-drawn latencies; oracles on the event-sequence-stamped call log (shard never invoked before its xorbs' successful puts; failed upload implies a failing session call; a session whose calls all succeeded is reconstructible; no caller hangs).",
                   "deterministic simulation with exhaustive single-fault injection per sampled history (fail-before / reply-lost on every store call) and seeded completion order", level="fault_enumeration", ref="§7 C16"),
})

CHECKS["C20"] = ("flight", "exploration",
    "deterministic simulation of concurrent callers (single-threaded paused-clock runtime with seeded yields/sleeps at guarded points between lock sections, and a multi-threaded mode under a cooperative thread scheduler with lock-aware schedule points and runtime shutdown mid-call as a fault); history oracle over invoke/return events",
    "Real singleflight Group; callers, arrival times, task durations, task outcomes (value/error/panic) and the scheduling decisions at five guarded yield points between the lock sections of Group::work are drawn from the seed; the recorded history (event-sequence-stamped invoke/return/task-start/task-end) is checked: one task per flight, every caller gets the outcome of a flight of its key alive during its call, a call after the owner returned gets a new flight, nobody hangs (watchdog at quiescence). One run in three uses a multi-threaded mode: every caller is an OS thread with its own runtime under a cooperative one-thread-at-a-time scheduler that switches at the H5 points, at lock-aware points inside Call::{get_future,complete} (live only where the result lock is not held) and whenever a caller is pending; a run in which all remaining callers stay pending is a hang; as a fault, one caller's runtime may be shut down while its call is pending (its owner task dropped unfinished): every other caller must still return.",
    "Trusted: tokio primitives. Interleavings are explored at lock-section granularity plus wherever a lock-aware point finds the result lock free (H5), not at atomic-instruction granularity.", "§7 C20")

CACHE_NOTE = "Trusted: the file system (tmpfs), std::sync::Mutex. Interleavings are at the granularity of the H4 points (before each state-lock acquisition and file-system effect), which is the property's own granularity; one OS thread runs at a time."
CHECKS["C12"] = ("cache", "exploration",
    "deterministic thread-schedule simulation (cooperative one-at-a-time scheduler over real OS threads at guarded points) with on-disk fault injection while closed; virtual-xorb reference model",
    "Real DiskCache under 1-4 simulated threads whose interleaving at every lock acquisition / file-system effect is drawn from the seed (4 strategies incl. PCT-like priorities and bounded pre-emption), racing deletions of item files while open, and between phases close -> seeded damage (bit-flip bursts <=32 bit, truncation, extension, deletion, junk files/dirs at all three levels, six rename kinds incl. well-formed names) -> re-open. Every hit is compared with the one legal answer of a per-key virtual xorb; panics are caught per operation. Two damage classes the format cannot detect are listed as known findings.",
    CACHE_NOTE, "§7 C12")
CHECKS["C13"] = ("cache", "exploration",
    "deterministic thread-schedule simulation with invariant checks at every schedule point and quiescence checks against the directory listing",
    "Same scheduler on damage-free histories (identical concurrent puts, nested/subsuming puts, eviction during get, racing deletions, re-opens with the same capacity): counters == tracked entries at every schedule point, capacity bound after every completed insertion, at quiescence every file is a tracked entry, read-back drops file-less entries (shadowed ones accounted explicitly), totals == directory, and again after re-open.",
    CACHE_NOTE, "§7 C13")

SHARD_NOTE = "Trusted: the independent shard parser and hash code in sim/src/refmodel.rs, blake3. Inputs (model shards, queries, histories) are seeded generation; the simulated dimensions are reader delivery (short reads, Pending), the wall clock and file mtimes (H6), and directory histories."
CHECKS["C05"] = ("shard", "exploration",
    "deterministic simulation of shard-directory histories (add/flush/plant/consolidate/keyed re-export/re-open under a simulated clock) with a reference chunk->xorb model; reader-seam fault injection (short reads)",
    "Every dedup answer from the real in-memory index, the on-disk shard (through a short-reading reader) and the ShardFileManager (after each step of a seeded directory history incl. keyed shards under several keys) is checked for truthfulness against the model of all xorbs ever added: 1<=n<=|query|, range width n, positions hold the queried hashes (engineered duplicate chunks and colliding 64-bit prefixes), byte count = sum of lengths; a third of the queries run over a xorb's end and continue with the hash of the record that follows in the shard. One run in four drives the file-level deduper (FileDeduper) directly in seeded batches under small xorb limits: every index answer and every segment of the finished file record — in-xorb self-references and references across xorb cuts included — must name chunks that are the file's chunks at that point. Misses are always allowed here.",
    SHARD_NOTE, "§7 C05")
CHECKS["C09"] = ("shard", "exploration",
    "reader-seam simulation (seeded short reads, Pending polls, fragment walker) of the seekable, minimal and streaming shard readers against the record model and an independent shard parser",
    "Model shards up to 700 files / 60 xorbs / 3000 chunks per xorb (interpolation phase live), four key distributions incl. <=7 equal truncated prefixes, extremes and dense clusters, five flag modes, re-insertion of identical records and replacement of a record by one of another shape (flags toggled, segments dropped or added); serialised by the real code, parsed independently (records, order, three lookup tables, totals, size estimate) and queried for every/sampled contained and absent key through readers whose delivery is drawn from the seed.",
    SHARD_NOTE, "§7 C09")
CHECKS["C10"] = ("shard", "exploration",
    "deterministic simulation of shard-directory histories with simulated mtimes (ordered, tied, reversed) plus cursor-level set operations through short-reading readers; record-set conservation oracle",
    "Union/difference of overlapping/identical/empty/flag-variant model shards are compared with the set-theoretic result (richer variant kept) and must themselves satisfy C09's structural and lookup clauses; consolidate_shards_in_directory runs inside seeded directory histories under thresholds from merge-nothing to merge-all: retrievable record set unchanged, every returned shard exists and is named by its content hash, a shard is deleted only if all its records are in a returned shard, files added earlier stay retrievable through a re-opened manager.",
    SHARD_NOTE, "§7 C10")
CHECKS["C18"] = ("shard", "exploration",
    "deterministic simulation of keyed re-export histories under a simulated clock (creation/expiry/grace orderings) with byte-level oracle from an independent parser and HMAC implementation",
    "Shards are re-exported under 4 keys (incl. zero) x 8 include-flag combinations; the exported bytes must carry keyed chunk hashes and table keys only, unchanged xorb/file hashes, sections iff requested, creation/expiry from the simulated clock; a manager over only the keyed export must answer unkeyed queries exactly like a manager over the original whenever the first chunk is unambiguous (with and without lookup tables), and a manager over a directory with exports under several keys must hit whenever a live registered export holds the first query chunk; shards past expiry never load, deletion only at expiry+grace.",
    SHARD_NOTE, "§7 C18")

XORB_NOTE = "Trusted: the independent xorb parser and hash code (sim/src/refmodel.rs), blake3; compressed chunk payloads are compared through the original input (C07) or decoded with /repo's own decoder (C08.d), since no independent LZ4/BG4 decoder is available offline."
CHECKS["C07"] = ("stream/xorb", "exploration",
    "reader-seam simulation (seeded short reads on Read+Seek, tokio AsyncRead with short reads and Pending, Stream<Bytes> fragmentation) of the xorb decoders against the original bytes and an independent xorb parser",
    "Chunk lists of 1..600 chunks (occasionally up to the 8192-chunk maximum; 1 B..128 KiB, every residue mod 4; random, compressible, float-like content) are serialised by the real code under None/LZ4/BG4+LZ4/automatic selection and read back whole, by every chunk range (all ranges up to 12 chunks, sampled beyond) and through the three chunk decoders under simulated delivery; boundaries, unpacked offsets and lengths are compared with the input. Inputs are seeded generation; the simulated part is the reader side.",
    XORB_NOTE, "§7 C07")
CHECKS["C08"] = ("stream/xorb", "fault_enumeration",
    "fault injection on stored/transmitted xorb bytes (for small objects enumerated: every single-bit and all-bit flip of chunk-header and non-hash footer bytes, three flips of every hash byte, truncation at every offset, every version-byte x u32-field pair, all footers re-assembled with disagreeing chunk counts; seeded splices, field inflation, combined footer edits, random strings) with panic capture, counting allocator and independent re-verification of every acceptance",
    "Both validators and the footer parser run on valid objects (own hash, other hash) and on mutants; never a panic, never a single allocation >= 64 MiB for <= 1 MiB input, valid accepted / other hash rejected, and every acceptance is re-verified: chunk section decodes, recomputed hash equals the accepted hash, returned footer fields agree with the chunk data. Per enumerated object the listed mutation families are complete; objects and other multi-byte mutations are sampled.",
    XORB_NOTE, "§7 C08")

CHECKS["C17"] = ("recon", "exploration",
    "deterministic simulation of file reconstruction over a simulated blob transport (seeded latency and fragmentation per fetch on the paused clock) with the harness acting as CAS server; output oracle from virtual xorbs",
    "Real RemoteClient writers (sequential and parallel), get_one_term, singleflight and DiskCache (none / large / one-item capacity) reconstruct seeded plans (1-40 terms, repeated xorbs, fetch ranges exact / widened / whole-xorb / windows with decoys, first-term offset, byte ranges starting and ending mid-term) in 2-3 passes (cold then warm, both writers) while term fetches complete in seeded order; output bytes, returned length and written length are compared with the slice of the concatenated term data, and passes with each other. NUM_CONCURRENT_RANGE_GETS is sampled per worker process.",
    "Trusted: tokio, the harness's plan generator (it plays the server). reqwest / the retry middleware are not run. Each fetch info has its own URL.", "§7 C17")

CHECKS["C19"] = ("crash", "fault_enumeration",
    "crash-point enumeration: directory snapshots at every named point between file-system effects (process-crash model) and one derived state per create/delete/rename of the kernel's inotify effect log, re-opened by fresh instances, plus a protocol check over that event sequence",
    "For seeded histories, the operation under test (shard flush, consolidation, keyed export, LocalClient::put, DiskCache::put with eviction) runs once while every crash point (H4/H7) copies the directories; every snapshot and variants with leftover temp files cut to a prefix are re-opened: final-named files complete and consistent with their names (content hash / length+CRC / validator), records retrievable before the operation still retrievable (losses the completed operation itself causes, i.e. evictions, excepted), re-open neither fails nor panics nor serves temp files. Independently of where the points sit, the inotify event sequence must show final names appearing only by rename and never written afterwards, and one more crash state per namespace-changing event of that sequence is derived from the copy taken at the start and re-opened like the others (states between effects that no named point separates). A range the chunk cache served before a put and serves after its completion must be served at every stop point in between. Complete over crash points per history; histories sampled.",
    "Trusted: tmpfs semantics, inotify. Crash states are taken between library-level file-system effects, not at individual write(2) calls (no syscall interposition available); temp-file prefix variants cover the states in between.", "§7 C19")

NOT_APPLICABLE = {
    "C06": "Every clause is a pure function of its input (hash identities, text-form round trips, avalanche); there is no schedule, clock, fault or history for a simulator to control, so deterministic simulation does not apply (DESIGN §7 C06). The independent hash implementations are exercised as oracles of C02/C03/C08.",
}

PENDING_REASON = "check not built yet in this tree (design in DESIGN.md §7); not claimed until its check exists"

def main():
    props = [json.loads(l)["id"] for l in open(os.path.join(HERE, "properties.jsonl"))]
    hooks = subprocess.run(["git", "-C", "/repo", "log", "--format=%H %s", "--reverse"], capture_output=True, text=True).stdout.splitlines()
    hook_commits = [l.split()[0] for l in hooks if "verif hook" in l]
    checks = []
    for pid in props:
        if pid not in CHECKS:
            continue
        engine, level, technique, text, note, ref = CHECKS[pid]
        checks.append({
            "property_id": pid,
            "quick_cmd": f"./check {pid} quick",
            "thorough_cmd": f"./check {pid} thorough",
            "evidence_file": f"/verif/evidence/{pid}.json",
            "replay_cmd_template": f"./check {pid} --replay {{path}}",
            "engine": engine,
            "level_claimed": {"category": level, "text": text, "design_ref": ref},
            "level_note": note,
            "technique": technique,
        })
    na = []
    for pid in props:
        if pid in CHECKS:
            continue
        na.append({"property_id": pid, "reason": NOT_APPLICABLE.get(pid, PENDING_REASON)})
    engines = {}
    for pid, v in CHECKS.items():
        engines.setdefault(v[0], []).append(pid)
    manifest = {
        "version": 1,
        "setup_cmd": "./check --build",
        "hooks": {
            "guard": "xet_verif",
            "enable": "RUSTFLAGS=\"--cfg xet_verif\" (set by ./check; /verif/sim depends on /repo's crates by path through the symlink sim/repo)",
            "baseline_off_cmd": "cd /repo && (cargo nextest run --workspace --no-fail-fast --tool-config-file pb:/w/lib/nextest.toml --profile pb --test-threads 8 --offline || cargo test --workspace --no-fail-fast --offline)",
            "source_commits": hook_commits,
            "add_only": True,
        },
        "engines": [{"name": n, "path": "sim/src/engines", "serves_properties": sorted(p), "kind_free_text": "deterministic simulation engine inside the xsim binary"} for n, p in sorted(engines.items())],
        "checks": checks,
        "not_applicable": na,
        "notes": "All checks: ./check <ID> quick|thorough rebuilds /verif/sim (xsim) offline against /repo's working tree with --cfg xet_verif, then runs seeded simulated executions in worker processes. Exit 0 clean, 1 with VIOLATION line, 2 harness/build error. VERIF_SEED overrides the default seed. Known findings: /verif/known_findings.json.",
    }
    json.dump(manifest, open(os.path.join(HERE, "MANIFEST.json"), "w"), indent=1)
    print("wrote MANIFEST.json:", len(checks), "checks,", len(na), "not claimed")

if __name__ == "__main__":
    main()
