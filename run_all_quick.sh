#!/bin/bash
# Runs every claimed check's quick tier on the current tree (regenerates /verif/evidence/*.json); prints one line per check.
cd "$(dirname "${BASH_SOURCE[0]}")"
rc=0
for id in $(python3 -c "import json;print(' '.join(c['property_id'] for c in json.load(open('MANIFEST.json'))['checks']))"); do
  out="$(./check $id quick 2>&1)"; code=$?
  echo "$id exit=$code $(echo "$out" | grep -E '^xsim: [0-9]+ runs' | tail -1)"
  echo "$out" | grep -E '^(VIOLATION|xsim: HARNESS)' | head -3
  [ $code -ne 0 ] && rc=1
done
exit $rc
